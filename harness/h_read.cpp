// harness/h_read.cpp -- C13: file readers survive arbitrary input without memory errors and fail cleanly.
//   --sub enum   case k = k-th item of the deterministic enumeration (seed independent; k beyond the end is a no-op)
//   --sub mut    case k = seeded structure-aware mutation of a seed file, pure function of (seed, k)
//   --sub file   --entry E --variant V --file PATH [--faultkey KEY]   one case from a file (replay, strace fault injection)
//   --sub list   --list FILE   case k = k-th line "<entry> <variant> <path>" of FILE (valgrind replay of corpus files)
//   --dumpdir DIR  (any sub) write each case's input to DIR/case<k>.<entry>.<variant>.bin before running it
//   --sub dumpseeds --out DIR  write the seed pool to DIR/<kind>/  (corpus for libFuzzer)
// A read that does not return within its CPU-time budget is retried once with 4x the budget (first occurrence of a signature)
// and then reported as C13:hang:<entry>:<top SoPlex frame>; the process re-executes itself at case+1 so the shard goes on.
#include "c13_common.hpp"

using namespace c13;

#if defined(__SANITIZE_ADDRESS__)
#define C13_ASAN 1
extern "C" int __lsan_do_recoverable_leak_check();
static const char* const FLV = "asan";
#else
#define C13_ASAN 0
static const char* const FLV = "opt";
#endif

static Cli cli;
static bool verbose = false;
static std::vector<std::string> g_args;
static std::set<std::string> g_hangSigs;       // confirmed hang signatures of this shard (passed on through exec)
static long long g_retryCase = -1;
static long long g_curCase = -1;
static std::string g_curDesc, g_curReplay;
static bool g_mark = false;

static void flushSummary()
{
   sink().flushSummary();       // "partial" record: what was observed so far survives a later death of this worker
}

static void reexec(long long from, long long retry)
{
   std::vector<std::string> a;
   for(size_t i = 0; i < g_args.size(); i++)
   {
      if(g_args[i] == "--from" || g_args[i] == "--retry" || g_args[i] == "--hangsigs")
      {
         i++;
         continue;
      }
      a.push_back(g_args[i]);
   }
   a.push_back("--from");
   a.push_back(std::to_string(from));
   a.push_back("--retry");
   a.push_back(std::to_string(retry));
   std::string hs;
   for(auto& s : g_hangSigs) hs += (hs.empty() ? "" : ",") + s;
   a.push_back("--hangsigs");
   a.push_back(hs.empty() ? "-" : hs);
   std::vector<char*> av;
   for(auto& s : a) av.push_back((char*)s.c_str());
   av.push_back(nullptr);
   fflush(stdout);
   fflush(stderr);
   execv(av[0], av.data());
   _exit(98);
}

static void onTimeout()
{
   // runs inside the SIGPROF handler while the main thread spins in reader code
   Sink& S = sink();
   std::string frame = topSoplexFrame();
   std::string e = entryName[g_entry];
   std::string sig = e + ":" + (g_phase == PH_READ ? "" : "post:") + frame;
   bool confirmed = g_hangSigs.count(sig) > 0 || g_retryCase == g_curCase;
   if(!confirmed)
   {
      S.count("hang.first_expiry_retried");
      flushSummary();
      reexec(g_curCase, g_curCase);
   }
   g_hangSigs.insert(sig);
   S.count("hang.reported");
   S.count("entry." + e + ".hang");
   S.viol("C13:hang:" + sig, std::string("no return from the ") + (g_phase == PH_READ ? "reader" : "post-read sequence") + " within the CPU budget (retried once with 4x budget); stuck in " + frame +
          " | " + g_curDesc, g_curReplay);
   S.count("cases");
   S.end(g_curCase);
   if(g_curCase + 1 >= cli.to)
   {
      S.finish();
      fflush(stdout);
      _exit(0);
   }
   flushSummary();
   reexec(g_curCase + 1, -1);
}

// ---------------------------------------------------------------- leak attribution (asan flavour)
#if C13_ASAN
static std::map<std::string, long long> g_leakPrev;
static int g_leakFile = -1;
static std::string leakSig(const std::vector<std::string>& frames)
{
   // "<innermost two SoPlex frames>@<reader function on the stack>": a property of the allocation stack alone.  The case that is
   // running when LSan first sees the block is NOT part of the key: LSan scans conservatively, a stale pointer left in a dead stack
   // slot can hide a leaked block for a few cases.
   static const char* const readers[] = {"readLPF", "readMPS", "readBasis", "loadSettingsFile", "parseSettingsString", "_parseSettingsLine", "readBasisFile", "readFile"};
   std::string sig, reader, firstOther;
   int n = 0;
   for(auto& f : frames)
   {
      // "    #1 0x... in soplex::NameSet::NameSet(...) /repo/src/soplex/nameset.cpp:200"   or   "... (/path/binary+0x123)"
      size_t pin = f.find(" in ");
      if(pin == std::string::npos) continue;
      std::string rest = f.substr(pin + 4);
      while(!rest.empty() && (rest.back() == '\n' || rest.back() == ' ')) rest.pop_back();
      size_t sp = rest.rfind(' ');
      std::string fnfull = sp == std::string::npos ? rest : rest.substr(0, sp);
      {
         // a SoPlex function, not a std:: function instantiated over SoPlex types: look at the name outside template arguments and parameters
         std::string top;
         int depth = 0;
         for(char ch : fnfull)
         {
            if(ch == '<' || ch == '(') depth++;
            else if(ch == '>' || ch == ')') depth--;
            else if(depth == 0) top += ch;
         }
         if(top.find("soplex::") == std::string::npos)
         {
            if(firstOther.empty() && top.find("__interceptor") == std::string::npos && top.find("operator new") == std::string::npos) firstOther = cleanFn(top);
            continue;
         }
      }
      std::string fn = cleanFn(fnfull);
      if(fn.empty()) continue;
      if(fnfull.find("SPxLPBase<boost::multiprecision") != std::string::npos && fn.compare(0, 11, "SPxLPBase::") == 0) fn = "SPxLPBaseRational::" + fn.substr(11);
      if(reader.empty()) for(auto r : readers)
         {
            size_t q = fn.rfind(r);
            if(q != std::string::npos && q + strlen(r) == fn.size() && (q == 0 || fn[q - 1] == ':'))
            {
               reader = fn;
               break;
            }
         }
      if(n < 2 && sig.find(fn) == std::string::npos)
      {
         sig += (sig.empty() ? "" : "|") + fn;
         n++;
      }
      if(n >= 2 && !reader.empty()) break;
   }
   if(sig.empty()) sig = firstOther.empty() ? "unknown" : firstOther;
   return sig + "@" + (reader.empty() ? "?" : reader);
}
// returns signatures whose leaked byte count grew since the previous check (LSan re-reports old leaks every time)
static std::vector<std::pair<std::string, std::string>> leakCheck()
{
   std::vector<std::pair<std::string, std::string>> grown;
   std::string path = tmpPath("lsan.txt");
   fflush(stderr);
   int saved = dup(2);
   int fd = open(path.c_str(), O_CREAT | O_TRUNC | O_RDWR, 0600);
   if(fd < 0 || saved < 0) return grown;
   dup2(fd, 2);
   int rc = __lsan_do_recoverable_leak_check();
   dup2(saved, 2);
   close(saved);
   close(fd);
   if(rc == 0)
   {
      unlink(path.c_str());
      return grown;
   }
   std::string txt;
   readWhole(path, txt);
   unlink(path.c_str());
   std::map<std::string, long long> now;
   std::map<std::string, std::string> blockOf;
   std::vector<std::string> lines = splitLines(txt);
   for(size_t i = 0; i < lines.size(); i++)
   {
      const std::string& l = lines[i];
      bool direct = l.compare(0, 15, "Direct leak of ") == 0, indirect = l.compare(0, 17, "Indirect leak of ") == 0;
      if(!direct && !indirect) continue;
      long long bytes = atoll(l.c_str() + (direct ? 15 : 17));
      std::vector<std::string> fr;
      std::string blk = l;
      size_t j = i + 1;
      for(; j < lines.size() && lines[j].find("#") != std::string::npos && lines[j].compare(0, 4, "    ") == 0; j++)
      {
         fr.push_back(lines[j]);
         if(fr.size() <= 14) blk += lines[j];
      }
      std::string sig = std::string(direct ? "" : "indirect:") + leakSig(fr);
      now[sig] += bytes;
      if(!blockOf.count(sig)) blockOf[sig] = blk;
      i = j - 1;
   }
   bool anyDirect = false;
   for(auto& kv : now) if(kv.second > g_leakPrev[kv.first] && kv.first.compare(0, 9, "indirect:") != 0) anyDirect = true;
   for(auto& kv : now)
   {
      if(kv.second <= g_leakPrev[kv.first]) continue;
      bool ind = kv.first.compare(0, 9, "indirect:") == 0;
      if(ind && anyDirect) continue;          // indirect leaks hang off a direct one that is reported
      grown.emplace_back(kv.first, "leaked bytes for this allocation site grew from " + std::to_string(g_leakPrev[kv.first]) + " to " + std::to_string(kv.second) + "\n" + blockOf[kv.first]);
   }
   g_leakPrev = now;
   return grown;
}
#endif

// ---------------------------------------------------------------- one case
static void execCase(long long k, const std::string& sub, const CaseIn& in0, const std::string& cat, const std::string& label)
{
   Sink& S = sink();
   CaseIn in = in0;
   in.entry = effectiveEntry(in0);       // readFile() picks the LP or the MPS reader from the first byte: name the reader that really runs
   if(in.entry != in0.entry) S.count("routed.to-other-reader");
   g_curCase = k;
   g_curDesc = sub + ":" + entryName[in.entry] + ":" + cat;
   S.begin(k, g_curDesc);
   if(g_mark) fprintf(stderr, "C13-CASE %lld %s %s\n", k, entryName[in.entry], label.c_str());
   std::string shown = in.bytes.size() <= 6000 ? in.bytes : in.bytes.substr(0, 3000);
   g_curReplay = Json().str("entry", entryName[in.entry]).num("variant", in.variant).str("category", cat).str("what", label).num("input_len", (long long)in.bytes.size()).str("input_b64",
                 b64(shown)).done();
   if(verbose) fprintf(stderr, "case %lld %s variant %u [%s] %s\n---- input (%zu bytes)\n%s\n----\n", k, entryName[in.entry], in.variant, cat.c_str(), label.c_str(), in.bytes.size(),
                          jesc(in.bytes.substr(0, 4000)).c_str());
   if(cli.extra.count("dumpdir")) writeWhole(cli.extra["dumpdir"] + "/case" + std::to_string(k) + "." + std::to_string(in.entry) + "." + std::to_string(in.variant) + ".bin", in.bytes);
   if(g_retryCase == k) g_timeScale *= 4;
   CaseOut out;
   runCase(in, out);
   if(g_retryCase == k)
   {
      g_timeScale /= 4;
      S.count("hang.retry_completed_slow_not_hang");
   }
   S.count("cases");
   S.count(std::string("flavour.") + FLV);
   S.count("cat." + cat.substr(0, cat.find("-k")));
   if(in.variant & V_GZ) S.count("variant.gz");
   if(in.variant & V_NAMES) S.count("variant.names");
   if(in.variant & V_PRELOAD) S.count("variant.preloaded");
   if(out.nontrivial) S.seen("nontrivial", fnv(in.bytes) ^ (uint64_t)in.entry);
   S.seen("inputs", fnv(in.bytes) ^ (uint64_t)(in.entry * 31 + in.variant));
   if(verbose) fprintf(stderr, "-> ok=%d threw=%d %s readCpu=%.4f\n", out.ok, out.threw, out.extype.c_str(), out.readCpu);
#if C13_ASAN
   if(!out.threw)
   {
      S.count("leakcheck.runs");
      for(auto& g : leakCheck())
      {
         S.count(std::string("entry.") + entryName[in.entry] + ".leak");
         S.viol(std::string("C13:leak:") + g.first, std::string("first seen by LeakSanitizer while running a ") + entryName[in.entry] + " case; " + g.second);
      }
   }
   else
   {
      // what the unwinding of an escaped exception left behind: a defect of its own (raw allocations of the readers are not exception safe)
      S.count("leakcheck.runs_after_exception");
      for(auto& g : leakCheck())
      {
         S.count(std::string("entry.") + entryName[in.entry] + ".leak_on_exception");
         S.viol(std::string("C13:leak-on-exception:") + g.first, std::string("seen after ") + out.extype + " escaped from a " + entryName[in.entry] + " case: " + g.second);
      }
   }
#endif
   if(k % 97 == 0 || k == cli.from) S.sample(Json().str("sub", sub).str("entry", entryName[in.entry]).str("category", cat).str("what", label).num("bytes", (long long)in.bytes.size()).boolean("ok", out.ok).done());
   S.end(k);
   flushSummary();
}

struct ViolCtx
{
   static void hook()
   {
      Sink& S = sink();
      H.viol = [&S](const std::string & key, const std::string & detail)
      {
         S.viol(key, detail + " | " + g_curDesc, g_curReplay);
      };
      H.count = [&S](const std::string & n)
      {
         S.count(n);
      };
      H.maxi = [&S](const std::string & n, double v)
      {
         S.maxi(n, v);
      };
   }
};

int main(int argc, char** argv)
{
   for(int i = 0; i < argc; i++) g_args.push_back(argv[i]);
   cli.parse(argc, argv);
   verbose = cli.extra.count("verbose") > 0;
   g_mark = cli.extra.count("mark") > 0;
   if(cli.extra.count("retry")) g_retryCase = atoll(cli.extra["retry"].c_str());
   if(cli.extra.count("timescale")) g_timeScale = atof(cli.extra["timescale"].c_str());
   if(cli.extra.count("hangsigs") && cli.extra["hangsigs"] != "-")
   {
      std::stringstream ss(cli.extra["hangsigs"]);
      std::string t;
      while(std::getline(ss, t, ',')) if(!t.empty()) g_hangSigs.insert(t);
   }
   Sink& S = sink();
   S.prop = cli.prop;
   S.leakEvery = 0;      // leaks are attributed below (growth of LSan's per-allocation-site totals, keyed by entry point), not by Sink::end()
   if(cli.prop != "C13")
   {
      fprintf(stderr, "h_read: unknown property %s\n", cli.prop.c_str());
      return 2;
   }
   installTimer();
   g_onTimeout = onTimeout;
   ViolCtx::hook();
   initCtx(cli.tmpdir);
   std::string sub = cli.sub.empty() ? "enum" : cli.sub;
   if(sub == "dumpseeds")
   {
      buildPool();
      std::string out = cli.extra["out"];
      for(auto& s : P.all)
      {
         std::string d = out + "/" + std::string(1, s.kind);
         mkdir(out.c_str(), 0777);
         mkdir(d.c_str(), 0777);
         writeWhole(d + "/" + s.name, s.bytes);
      }
      unlink(C.baseMpsPath.c_str());
      return 0;
   }
   if(sub == "enum")
   {
      buildEnum();
      S.maxi("enum.total", (double)E.size());
      for(long long k = cli.from; k < cli.to; k++)
      {
         if(k >= (long long)E.size())
         {
            S.begin(k, "enum:beyond-end");
            S.end(k);
            continue;
         }
         const Item& it = E[(size_t)k];
         CaseIn in;
         in.entry = it.entry;
         in.variant = it.variant;
         in.bytes = it.gen();
         S.seen("enum", (uint64_t)k);
         S.count(std::string("enum.done.") + FLV);
         S.maxi("enum.total", (double)E.size());
         flushSummary();          // recorded even if the case below takes the process down
         execCase(k, "enum", in, it.cat, it.label);
      }
      S.maxi("enum.total", (double)E.size());
   }
   else if(sub == "mut")
   {
      buildPool();
      for(long long k = cli.from; k < cli.to; k++)
      {
         Rng g(fnv(cli.prop), cli.seed, (uint64_t)k);
         CaseIn in;
         in.entry = (int)(k % NENTRY);
         std::vector<const Seed*> pool = P.of(kindOfEntry(in.entry));
         const Seed* s = pool[(size_t)(g.next() % pool.size())];
         std::string base = s->bytes;
         if(in.entry == SET_STR)
         {
            std::vector<std::string> ls = splitLines(base);
            base = ls[(size_t)(g.next() % ls.size())];
            while(!base.empty() && base.back() == '\n') base.pop_back();
         }
         in.bytes = mutate(g, base, kindOfEntry(in.entry));
         in.variant = (g.chance(0.5) ? V_NAMES : 0u) | (g.chance(0.5) ? V_SYNCAUTO : 0u) | (g.chance(0.08) ? V_GZ : 0u) | (g.chance(0.2) ? V_PRELOAD : 0u) | (g.chance(0.3) ? V_ZLIB : 0u);
         execCase(k, "mut", in, "mutation", "mutation of " + s->name);
      }
   }
   else if(sub == "file")
   {
      CaseIn in;
      in.entry = atoi(cli.extra["entry"].c_str());
      in.variant = (unsigned)atoi(cli.extra["variant"].c_str());
      if(cli.extra.count("faultkey")) in.faultKey = cli.extra["faultkey"];
      if(in.entry < 0 || in.entry >= NENTRY || !readWhole(cli.extra["file"], in.bytes))
      {
         fprintf(stderr, "h_read: cannot read %s\n", cli.extra["file"].c_str());
         return 2;
      }
      execCase(0, "file", in, "file", cli.extra["file"].substr(cli.extra["file"].rfind('/') + 1));
   }
   else if(sub == "list")
   {
      std::string lst;
      if(!readWhole(cli.extra["list"], lst)) return 2;
      std::vector<std::string> ls = splitLines(lst);
      for(long long k = cli.from; k < cli.to && k < (long long)ls.size(); k++)
      {
         std::stringstream ss(ls[(size_t)k]);
         CaseIn in;
         std::string path;
         ss >> in.entry >> in.variant >> path;
         if(in.entry < 0 || in.entry >= NENTRY || !readWhole(path, in.bytes)) continue;
         execCase(k, "list", in, "file", path.substr(path.rfind('/') + 1));
      }
   }
   else
   {
      fprintf(stderr, "h_read: unknown sub-workload %s\n", sub.c_str());
      return 2;
   }
   unlink(C.baseMpsPath.c_str());
   for(const char* x : {"in.lp", "in.mps", "in.bas", "in.set"}) unlink(tmpPath(x).c_str());
#if C13_ASAN
   // anything leaked outside the per-case attribution (there should be nothing)
   for(auto& g : leakCheck()) S.viol("C13:leak:unattributed:" + g.first, g.second);
#endif
   S.finish();
   fflush(stdout);
   _exit(0);      // leaks were attributed per case above; skip LSan's at-exit pass, which would only repeat them
}
