// harness/h_param.cpp -- C15: parameters: what is set is what is used; invalid values rejected atomically.
//
// Model: a map parameter -> value initialised from the published tables (Settings::boolParam/intParam/realParam: names,
// ranges, defaults, descriptions = what saveSettingsFile prints) plus build facts (no PaPILO).  The model predicts the
// return value and the complete parameter state after every operation; the oracle compares ALL getters, the random seed,
// derived state (component names/pointers, tolerances, verbosity, rational mirrors) and the stored LP after EVERY operation.
// Every operation is first executed in a forked child ("probe"): a child killed by SIGFPE/SIGSEGV/... is a violation with
// a call-site key and the operation is skipped in the worker, so known crashes do not kill the worker.
#include "sx.hpp"
#include "solvecommon.hpp"
#include <sys/wait.h>
#include <sys/types.h>
#include <unistd.h>
#include <signal.h>
#include <cxxabi.h>
#include <typeinfo>

using namespace vl;
using namespace soplex;

#include "h_param_model.inc"
#include "h_param_exec.inc"
#include "h_param_cases.inc"

int main(int argc, char** argv)
{
   cli.parse(argc, argv);
   verbose = cli.extra.count("verbose") > 0;
   if(cli.extra.count("probe")) probeAll = cli.extra["probe"] != "risky";
   Sink& S = sink();
   S.prop = cli.prop;
   S.maxSamples = 4;
   if(cli.prop != "C15")
   {
      fprintf(stderr, "h_param: unknown property %s\n", cli.prop.c_str());
      return 2;
   }
   loadTables();
   for(long long k = cli.from; k < cli.to; k++)
   {
      Rng g(fnv(cli.prop), cli.seed, (uint64_t)k);
      runCase(k, g);
   }
   S.finish();
   return 0;
}
