// harness/h_param.cpp -- C15: parameters: what is set is what is used; invalid values rejected atomically.
//
// Model: a map parameter -> value initialised from the published tables (Settings::boolParam/intParam/realParam: names,
// ranges, defaults, descriptions = what saveSettingsFile prints) plus build facts (no PaPILO).  The model predicts the
// return value and the complete parameter state after every operation; the oracle compares ALL getters, the random seed,
// derived state (component names/pointers, tolerances, verbosity, rational mirrors) and the stored LP after EVERY
// operation.  Every operation is first executed in a forked child ("probe"): a child killed by SIGFPE/SIGSEGV/SIGBUS/
// SIGILL is a violation with a call-site key and the operation is skipped in the worker (known crashes do not kill it).
#include "sx.hpp"
#include "solvecommon.hpp"
#include <sys/wait.h>
#include <sys/types.h>
#include <unistd.h>
#include <signal.h>
#include <cxxabi.h>
#include <typeinfo>

using namespace vl;
using namespace soplex;

static Cli cli;
static bool verbose = false;
static bool probeAll = true;

static const bool HAVE_PAPILO =
#ifdef SOPLEX_WITH_PAPILO
   true;
#else
   false;
#endif

// ------------------------------------------------------------------------------------------------ published tables
struct Tables
{
   int nb = 0, ni = 0, nr = 0;
   std::vector<std::string> bn, in, rn, idesc, bdesc;
   std::vector<char> bdef, bpap;
   std::vector<int> ilo, ihi, idef;
   std::vector<std::vector<int>> ienum;     // documented choices "(0 - off, 1 - auto, ...)"; empty = whole range
   std::vector<double> rlo, rhi, rdef;
};
static Tables T;

static std::vector<int> parseChoices(const std::string& d)
{
   std::vector<int> out;
   for(size_t i = 0; i < d.size(); i++)
   {
      if(!(i == 0 || d[i - 1] == '(' || d[i - 1] == ' ')) continue;
      size_t j = i;
      if(d[j] == '+' || d[j] == '-') j++;
      size_t ds_ = j;
      while(j < d.size() && isdigit((unsigned char)d[j])) j++;
      if(j == ds_) continue;
      if(d.compare(j, 3, " - ") != 0) continue;
      out.push_back(atoi(d.substr(i, j - i).c_str()));
      i = j;
   }
   return out;
}

static void loadTables()
{
   T.nb = SoPlex::BOOLPARAM_COUNT;
   T.ni = SoPlex::INTPARAM_COUNT;
   T.nr = SoPlex::REALPARAM_COUNT;
   auto& B = SoPlex::Settings::boolParam;
   auto& I = SoPlex::Settings::intParam;
   auto& R = SoPlex::Settings::realParam;
   for(int p = 0; p < T.nb; p++)
   {
      T.bn.push_back(B.name[p]);
      T.bdesc.push_back(B.description[p]);
      T.bdef.push_back(B.defaultValue[p]);
      T.bpap.push_back(p >= SoPlex::SIMPLIFIER_SINGLETONCOLS && p <= SoPlex::SIMPLIFIER_DOMINATEDCOLS);
   }
   for(int p = 0; p < T.ni; p++)
   {
      T.in.push_back(I.name[p]);
      T.idesc.push_back(I.description[p]);
      T.ilo.push_back(I.lower[p]);
      T.ihi.push_back(I.upper[p]);
      T.idef.push_back(I.defaultValue[p]);
      std::vector<int> ch = parseChoices(I.description[p]);
      if(ch.size() < 2) ch.clear();
      T.ienum.push_back(ch);
   }
   for(int p = 0; p < T.nr; p++)
   {
      T.rn.push_back(R.name[p]);
      T.rlo.push_back(R.lower[p]);
      T.rhi.push_back(R.upper[p]);
      T.rdef.push_back(R.defaultValue[p]);
   }
}

static int findName(const std::vector<std::string>& v, const std::string& n)
{
   for(size_t i = 0; i < v.size(); i++) if(v[i] == n) return (int)i;
   return -1;
}

// a small hard-coded table of well-known documented defaults / ranges (catches a mutated table)
static void checkTablesAgainstDocs()
{
   Sink& S = sink();
   if(T.nb != 26 || T.ni != 28 || T.nr != 27)
      S.viol("C15:table:counts:-:mutated", "expected 26 bool, 28 int, 27 real parameters, found " + std::to_string(T.nb) + "/" + std::to_string(T.ni) + "/" + std::to_string(T.nr));
   struct BD { const char* n; bool d; };
   static const BD bd[] = {{"lifting", false}, {"eqtrans", false}, {"ratfac", true}, {"ratrec", true}, {"powerscaling", true}, {"persistentscaling", true},
      {"ensureray", false}, {"fullperturbation", false}, {"rowboundflips", false}, {"iterative_refinement", true}, {"precision_boosting", true},
      {"simplifier_enable_dualfix", true}, {"forcebasic", false}
   };
   for(auto& e : bd)
   {
      int p = findName(T.bn, e.n);
      if(p < 0) S.viol(std::string("C15:table:") + e.n + ":-:missing", "documented bool parameter missing from the table");
      else if((bool)T.bdef[p] != e.d) S.viol(std::string("C15:table:") + e.n + ":-:default-mutated", "documented default differs from the table default");
   }
   struct ID { const char* n; int lo, hi, d; };
   static const ID id[] = {{"objsense", -1, 1, 1}, {"representation", 0, 2, 0}, {"algorithm", 0, 1, 1}, {"factor_update_type", 0, 1, 1},
      {"factor_update_max", 0, INT_MAX, 0}, {"iterlimit", -1, INT_MAX, -1}, {"reflimit", -1, INT_MAX, -1}, {"displayfreq", 1, INT_MAX, 200},
      {"verbosity", 0, 5, 3}, {"simplifier", 0, 3, 3}, {"scaler", 0, 6, 2}, {"starter", 0, 3, 0}, {"pricer", 0, 5, 0}, {"ratiotester", 0, 3, 3},
      {"syncmode", 0, 2, 0}, {"readmode", 0, 1, 0}, {"solvemode", 0, 2, 1}, {"checkmode", 0, 2, 1}, {"timer", 0, 2, 1}, {"hyperpricing", 0, 2, 1},
      {"solution_polishing", 0, 2, 0}, {"printbasismetric", -1, 3, -1}, {"leastsq_maxrounds", 0, INT_MAX, 50}, {"multiprecision_limit", 50, INT_MAX, 300}
   };
   for(auto& e : id)
   {
      int p = findName(T.in, e.n);
      if(p < 0) S.viol(std::string("C15:table:") + e.n + ":-:missing", "documented int parameter missing from the table");
      else
      {
         if(T.idef[p] != e.d) S.viol(std::string("C15:table:") + e.n + ":-:default-mutated", "documented default " + std::to_string(e.d) + ", table " + std::to_string(T.idef[p]));
         if(T.ilo[p] != e.lo || T.ihi[p] != e.hi) S.viol(std::string("C15:table:") + e.n + ":-:range-mutated", "documented range differs from the table range");
      }
   }
   struct RD { const char* n; double lo, hi, d; };
   static const RD rd[] = {{"feastol", 0, 1, 1e-6}, {"opttol", 0, 1, 1e-6}, {"epsilon_zero", 0, 1, 1e-16}, {"epsilon_factorization", 0, 1, 1e-20},
      {"epsilon_update", 0, 1, 1e-16}, {"epsilon_pivot", 0, 1, 1e-10}, {"infty", 1e10, 1e100, 1e100}, {"timelimit", 0, 1e100, 1e100},
      {"objlimit_lower", -1e100, 1e100, -1e100}, {"objlimit_upper", -1e100, 1e100, 1e100}, {"fpfeastol", 0, 1, 1e-9}, {"fpopttol", 0, 1, 1e-9},
      {"maxscaleincr", 1, 1e100, 1e25}, {"sparsity_threshold", 0, 1, 0.6}, {"representation_switch", 0, 1e100, 1.2}, {"obj_offset", -1e100, 1e100, 0},
      {"min_markowitz", 0.0001, 0.9999, 0.01}, {"refac_basis_nnz", 1, 100, 10}, {"refac_update_fill", 1, 100, 5}, {"refac_mem_factor", 1, 10, 1.5},
      {"leastsq_acrcy", 1, 1e100, 1000}, {"minred", 0, 1, 1e-4}, {"simplifier_modifyrowfac", 0, 1, 1.0}
   };
   for(auto& e : rd)
   {
      int p = findName(T.rn, e.n);
      if(p < 0) S.viol(std::string("C15:table:") + e.n + ":-:missing", "documented real parameter missing from the table");
      else
      {
         if(T.rdef[p] != e.d) S.viol(std::string("C15:table:") + e.n + ":-:default-mutated", "documented default " + ds(e.d) + ", table " + ds(T.rdef[p]));
         if(T.rlo[p] != e.lo || T.rhi[p] != e.hi) S.viol(std::string("C15:table:") + e.n + ":-:range-mutated", "documented range differs from the table range");
      }
   }
   // objsense documents exactly the choices -1 and +1 (0 lies in the range but is not a choice)
   int os = findName(T.in, "objsense");
   if(os >= 0 && !(T.ienum[os].size() == 2)) S.viol("C15:table:objsense:-:choices", "objsense description no longer documents exactly two choices");
   std::set<std::string> names(T.bn.begin(), T.bn.end());
   names.insert(T.in.begin(), T.in.end());
   names.insert(T.rn.begin(), T.rn.end());
   if((int)names.size() != T.nb + T.ni + T.nr) S.viol("C15:table:names:-:duplicate", "parameter names are not unique");
}

// ------------------------------------------------------------------------------------------------ model
struct Model
{
   std::vector<char> b;
   std::vector<int> i;
   std::vector<double> r;
   unsigned seed = 0;
   int rat = 0;       // rational LP: 0 absent, 1 exact copy of the real LP, 2 present with unspecified content
   Model()
   {
      b = T.bdef;
      i = T.idef;
      r = T.rdef;
   }
};

static bool validInt(int p, int v)
{
   if(v < T.ilo[p] || v > T.ihi[p]) return false;
   if(!T.ienum[p].empty() && std::find(T.ienum[p].begin(), T.ienum[p].end(), v) == T.ienum[p].end()) return false;
   if(p == SoPlex::SIMPLIFIER && v == SoPlex::SIMPLIFIER_PAPILO && !HAVE_PAPILO) return false;   // documented: not available in this build
   return true;
}
static bool validReal(int p, double v)
{
   if(std::isnan(v)) return false;
   return v >= T.rlo[p] && v <= T.rhi[p];
}
// predicted effect of the typed setters: return value; the model is updated on success
static bool predBool(Model& m, int p, bool v)
{
   if(T.bpap[p] && !HAVE_PAPILO) return (bool)m.b[p] == v;     // changing is rejected with a message, same value is fine
   m.b[p] = v;
   return true;
}
static bool predInt(Model& m, int p, int v)
{
   if(!validInt(p, v)) return false;
   if(p == SoPlex::SYNCMODE)
   {
      int old = m.i[p];
      if(v == SoPlex::SYNCMODE_ONLYREAL) m.rat = 0;
      else if(old == SoPlex::SYNCMODE_ONLYREAL) m.rat = v == SoPlex::SYNCMODE_AUTO ? 1 : 2;
   }
   m.i[p] = v;
   return true;
}
static bool predReal(Model& m, int p, double v)
{
   if(!validReal(p, v)) return false;
   if(p == SoPlex::SIMPLIFIER_MODIFYROWFAC && !HAVE_PAPILO && !(m.r[p] == v)) return false;
   m.r[p] = v;
   return true;
}

// ------------------------------------------------------------------------------------------------ value classes
struct IV
{
   std::string cls;
   int v;
};
struct RV
{
   std::string cls;
   double v;
};
static int randomValidInt(Rng& g, int p, int avoid)
{
   std::vector<int> c;
   if(!T.ienum[p].empty())
   {
      for(int v : T.ienum[p]) if(validInt(p, v)) c.push_back(v);
   }
   else if((long long)T.ihi[p] - T.ilo[p] <= 64)
   {
      for(int v = T.ilo[p]; v <= T.ihi[p]; v++) if(validInt(p, v)) c.push_back(v);
   }
   else
   {
      static const int cand[] = {-1, 0, 1, 2, 3, 7, 10, 50, 51, 64, 100, 200, 1000, 10000, 65536, 1 << 20, 1 << 30, INT_MAX - 1, INT_MAX};
      for(int v : cand) if(validInt(p, v)) c.push_back(v);
      int v = T.ilo[p] + g.range(0, 5000);
      if(validInt(p, v)) c.push_back(v);
   }
   if(c.empty()) return T.idef[p];
   for(int t = 0; t < 6; t++)
   {
      int v = g.pick(c);
      if(v != avoid) return v;
   }
   return g.pick(c);
}
static double randomValidReal(Rng& g, int p, double avoid)
{
   double lo = T.rlo[p], hi = T.rhi[p];
   for(int t = 0; t < 8; t++)
   {
      double v;
      int how = g.range(0, 3);
      if(lo >= 0 && hi <= 1.0 + 1e-12 && lo <= 1e-3)
      {
         if(how == 0) v = lo + g.unit() * (hi - lo);
         else v = std::pow(10.0, -g.unit() * 15.0) * hi;
      }
      else if(lo > 0 && hi / lo > 1e6) v = lo * std::pow(hi / lo, g.unit());
      else if(lo < -1e50) v = how == 0 ? (g.unit() - 0.5) * 2e6 : how == 1 ? (double)g.range(-1000, 1000) : how == 2 ? (g.unit() - 0.5) * 1e40 : (g.unit() - 0.5) * 20.0;
      else if(hi > 1e50) v = how <= 1 ? lo + g.unit() * 100.0 : lo + std::pow(10.0, g.unit() * 60.0);
      else v = lo + g.unit() * (hi - lo);
      if(g.chance(0.3))
      {
         char b[40];      // short decimal literals as well
         snprintf(b, sizeof b, "%.3g", v);
         v = strtod(b, nullptr);
      }
      if(validReal(p, v) && !(v == avoid)) return v;
   }
   return T.rdef[p];
}
static std::vector<IV> intClasses(Rng& g, int p, int cur)
{
   std::vector<IV> c;
   int lo = T.ilo[p], hi = T.ihi[p];
   c.push_back({"valid", randomValidInt(g, p, cur)});
   c.push_back({"min", lo});
   c.push_back({"max", hi});
   if(lo > INT_MIN) c.push_back({"below-min", lo - 1});
   if(hi < INT_MAX) c.push_back({"above-max", hi + 1});
   if(lo > INT_MIN + 1) c.push_back({"int-min", INT_MIN});
   if(hi < INT_MAX - 1) c.push_back({"int-max", INT_MAX});
   for(int v = lo; v <= hi && (long long)hi - lo <= 64; v++)
   {
      if(p == SoPlex::SIMPLIFIER && v == SoPlex::SIMPLIFIER_PAPILO && !HAVE_PAPILO) c.push_back({"2", v});
      else if(!validInt(p, v)) c.push_back({"non-enum", v});
   }
   c.push_back({"same", cur});
   return c;
}
static const double DENORM = 4.9406564584124654e-324;
static std::vector<RV> realClasses(Rng& g, int p, double cur)
{
   std::vector<RV> c;
   double lo = T.rlo[p], hi = T.rhi[p];
   c.push_back({"valid", randomValidReal(g, p, cur)});
   c.push_back({"min", lo});
   c.push_back({"max", hi});
   c.push_back({"below-min", std::nextafter(lo, -INFINITY)});
   c.push_back({"above-max", std::nextafter(hi, INFINITY)});
   c.push_back({"+inf", INFINITY});
   c.push_back({"-inf", -INFINITY});
   c.push_back({"nan", NAN});
   if(lo <= DENORM && DENORM <= hi) c.push_back({"denormal", DENORM});
   if(lo <= 0 && 0 <= hi) c.push_back({"neg-zero", -0.0});
   c.push_back({"same", cur});
   return c;
}

// ------------------------------------------------------------------------------------------------ text lines
struct Line
{
   int kind = 0;          // 0 parameter line, 1 comment/blank (no effect, success), 2 malformed structure (failure), 3 overlong (file only)
   char ptype = 'i';      // 'b','i','r','u'
   int p = -1;
   std::string pname = "-", cls = "-";
   bool bv = false;
   int iv = 0;
   double rv = 0;
   unsigned long long uv = 0;
   bool parsable = true;  // the value text denotes a value of the parameter's type (else: documented failure, no effect)
   std::string vtext, text;
};
static const char* BOOL_TRUE[] = {"true", "TRUE", "True", "t", "T", "1"};
static const char* BOOL_FALSE[] = {"false", "FALSE", "False", "f", "F", "0"};
static const int NLAYOUT = 8;
static std::string layout(int L, const std::string& t, const std::string& n, const std::string& v, bool forFile)
{
   switch(L % NLAYOUT)
   {
   case 0: return t + ":" + n + "=" + v;
   case 1: return t + ":" + n + " = " + v;
   case 2: return " " + t + " : " + n + " = " + v + " ";
   case 3: return "\t" + t + ":" + n + "\t=\t" + v;
   case 4: return t + ":" + n + " = " + v + " # a comment = : here";
   case 5: return t + ":" + n + " = " + v + "\r";
   case 6: return forFile ? t + ":" + n + " =" + v + "  \t" : t + ":" + n + " = " + v + "\n";
   default: return t + " :" + n + "= " + v;
   }
}
static const char* typeWord(char pt)
{
   return pt == 'b' ? "bool" : pt == 'i' ? "int" : pt == 'r' ? "real" : "uint";
}
static std::string realText(double v, int style)
{
   if(std::isnan(v)) return style % 3 == 0 ? "nan" : style % 3 == 1 ? "NaN" : "-nan";
   if(std::isinf(v)) return v > 0 ? (style % 3 == 0 ? "inf" : style % 3 == 1 ? "+inf" : "infinity") : (style % 2 ? "-inf" : "-infinity");
   char b[64];
   if(style % 3 == 1) snprintf(b, sizeof b, "%.16e", v);
   else if(style % 3 == 2)
   {
      snprintf(b, sizeof b, "%.17G", v);
   }
   else snprintf(b, sizeof b, "%.17g", v);
   return b;
}
static Line boolLine(int p, bool v, int spelling, int L, bool forFile)
{
   Line l;
   l.ptype = 'b';
   l.p = p;
   l.pname = T.bn[p];
   l.bv = v;
   l.cls = v ? "true" : "false";
   l.vtext = v ? BOOL_TRUE[spelling % 6] : BOOL_FALSE[spelling % 6];
   l.text = layout(L, "bool", l.pname, l.vtext, forFile);
   return l;
}
static Line intLine(int p, const std::string& cls, int v, int L, bool forFile, bool plus = false)
{
   Line l;
   l.ptype = 'i';
   l.p = p;
   l.pname = T.in[p];
   l.iv = v;
   l.cls = cls;
   l.vtext = (plus && v > 0 ? "+" : "") + std::to_string(v);
   l.text = layout(L, "int", l.pname, l.vtext, forFile);
   return l;
}
static Line realLine(int p, const std::string& cls, double v, int L, bool forFile, int style = 0)
{
   Line l;
   l.ptype = 'r';
   l.p = p;
   l.pname = T.rn[p];
   l.rv = v;
   l.cls = cls;
   l.vtext = realText(v, style);
   l.text = layout(L, "real", l.pname, l.vtext, forFile);
   return l;
}
static Line seedLine(const std::string& cls, unsigned long long v, int L, bool forFile)
{
   Line l;
   l.ptype = 'u';
   l.pname = "random_seed";
   l.uv = v;
   l.cls = cls;
   l.vtext = std::to_string(v);
   l.text = layout(L, "uint", l.pname, l.vtext, forFile);
   return l;
}
// value text that is not a value of the type: documented failure (no exception, no effect)
static Line badValueLine(char pt, int p, const std::string& cls, const std::string& vtext, int L, bool forFile)
{
   Line l;
   l.ptype = pt;
   l.p = p;
   l.pname = pt == 'b' ? T.bn[p] : pt == 'i' ? T.in[p] : pt == 'r' ? T.rn[p] : "random_seed";
   l.cls = cls;
   l.parsable = false;
   l.vtext = vtext;
   l.text = layout(L, typeWord(pt), l.pname, vtext, forFile);
   return l;
}
static const char* MALFORMED[] = {"no-colon", "no-equals", "no-value", "extra-token", "unknown-name", "wrong-type", "unknown-type", "bare-type", "empty-name", "name-only"};
static const int NMALFORMED = 10;
static Line malformedLine(int which, char pt, const std::string& name, const std::string& vtext)
{
   Line l;
   l.kind = 2;
   l.ptype = pt;
   l.cls = MALFORMED[which % NMALFORMED];
   std::string t = typeWord(pt);
   switch(which % NMALFORMED)
   {
   case 0: l.text = t + " " + name + " = " + vtext; break;
   case 1: l.text = t + ":" + name + " " + vtext; break;
   case 2: l.text = t + ":" + name + " = "; break;
   case 3: l.text = t + ":" + name + " = " + vtext + " " + vtext; break;
   case 4:
      l.text = t + ":" + name + "_nosuch = " + vtext;
      if(pt == 'u') l.cls = "name-suffix";       // "uint:random_seed_nosuch": no such parameter either
      break;
   case 5: l.text = std::string(pt == 'b' ? "int" : "bool") + ":" + name + " = " + vtext; break;
   case 6: l.text = "float:" + name + " = " + vtext; break;
   case 7: l.text = t; break;
   case 8: l.text = t + ": = " + vtext; break;
   default: l.text = t + ":" + name; break;
   }
   return l;
}
static Line commentLine(Rng& g)
{
   Line l;
   l.kind = 1;
   static const char* c[] = {"", "   ", "# comment", "\t# int:iterlimit = 5", "#", " \t ", "# real:feastol = nan", "\r"};
   l.text = c[g.range(0, 7)];
   l.cls = "comment";
   return l;
}
// predicted effect of one line (the same for parseSettingsString and for a line of a settings file)
static bool predLine(Model& m, const Line& l)
{
   if(l.kind == 1) return true;
   if(l.kind != 0 || !l.parsable) return false;
   if(l.ptype == 'b') return predBool(m, l.p, l.bv);
   if(l.ptype == 'i') return predInt(m, l.p, l.iv);
   if(l.ptype == 'r') return predReal(m, l.p, l.rv);
   m.seed = l.uv > UINT_MAX ? UINT_MAX : (unsigned)l.uv;      // documented: converted with a warning
   return true;
}

// independent reader of a saved settings file
struct SavedEntry
{
   std::string type, name, value, rangeLine;
};
static bool readSaved(const std::string& path, std::vector<SavedEntry>& out, std::string& err)
{
   std::ifstream f(path);
   if(!f)
   {
      err = "cannot open";
      return false;
   }
   std::string line, lastRange;
   while(std::getline(f, line))
   {
      if(line.empty()) continue;
      if(line[0] == '#')
      {
         if(line.compare(0, 8, "# range ") == 0) lastRange = line.substr(8);
         continue;
      }
      size_t c = line.find(':'), e = line.find(" = ");
      if(c == std::string::npos || e == std::string::npos || e < c)
      {
         err = "unparsable line <" + line + ">";
         return false;
      }
      SavedEntry s;
      s.type = line.substr(0, c);
      s.name = line.substr(c + 1, e - c - 1);
      s.value = line.substr(e + 3);
      s.rangeLine = lastRange;
      lastRange.clear();
      out.push_back(s);
   }
   return true;
}
static std::string sci8(double v)
{
   char b[64];
   snprintf(b, sizeof b, "%.8e", v);
   return b;
}

// ------------------------------------------------------------------------------------------------ execution with probe
struct Exec
{
   bool ret = false, threw = false, crashed = false;
   int sig = 0;
   std::string extype, how;
};
static const char* sigName(int s)
{
   return s == SIGFPE ? "SIGFPE" : s == SIGSEGV ? "SIGSEGV" : s == SIGBUS ? "SIGBUS" : s == SIGILL ? "SIGILL" : s == SIGABRT ? "SIGABRT" : "SIG?";
}
static std::string excName(const std::exception& e)
{
   int st = 0;
   char* d = abi::__cxa_demangle(typeid(e).name(), nullptr, nullptr, &st);
   std::string n = (st == 0 && d) ? d : typeid(e).name();
   free(d);
   return n;
}
// runs f (returning bool) first in a forked child; a child that dies (fatal signal, sanitizer report, abort) => crashed and f is
// NOT run in this process; the child's stderr (sanitizer report) is captured for the violation detail
static Exec runProbed(const std::function<bool()>& f, bool risky)
{
   Exec e;
   Sink& S = sink();
   if(probeAll || risky)
   {
      fflush(stdout);
      fflush(stderr);
      int pfd[2] = {-1, -1};
      if(pipe(pfd) != 0) pfd[0] = pfd[1] = -1;
      pid_t pid = fork();
      if(pid == 0)
      {
         if(pfd[1] >= 0)
         {
            dup2(pfd[1], 2);
            close(pfd[0]);
            close(pfd[1]);
         }
         signal(SIGFPE, SIG_DFL);
         signal(SIGSEGV, SIG_DFL);
         signal(SIGBUS, SIG_DFL);
         signal(SIGILL, SIG_DFL);
         int rc = 12;
         try
         {
            rc = f() ? 10 : 11;
         }
         catch(...)
         {
            rc = 12;
         }
         _exit(rc);
      }
      else if(pid > 0)
      {
         std::string err;
         if(pfd[1] >= 0) close(pfd[1]);
         if(pfd[0] >= 0)
         {
            char buf[4096];
            ssize_t n;
            while((n = read(pfd[0], buf, sizeof buf)) > 0 || (n < 0 && errno == EINTR)) if(n > 0 && err.size() < 6000) err.append(buf, (size_t)n);
            close(pfd[0]);
         }
         int st = 0;
         while(waitpid(pid, &st, 0) < 0 && errno == EINTR) {}
         S.count("probe.forks");
         bool normal = WIFEXITED(st) && (WEXITSTATUS(st) == 10 || WEXITSTATUS(st) == 11 || WEXITSTATUS(st) == 12);
         if(!normal)
         {
            e.crashed = true;
            e.sig = WIFSIGNALED(st) ? WTERMSIG(st) : 0;
            e.how = WIFSIGNALED(st) ? std::string("signal ") + sigName(e.sig) : "exit code " + std::to_string(WIFEXITED(st) ? WEXITSTATUS(st) : -1);
            size_t q = err.find("runtime error:");
            if(q == std::string::npos) q = err.find("ERROR:");
            if(q != std::string::npos) e.how += " | " + err.substr(q, 700);
            S.count("probe.crashes");
            return e;
         }
      }
      else
      {
         if(pfd[0] >= 0) close(pfd[0]);
         if(pfd[1] >= 0) close(pfd[1]);
         S.count("probe.fork_failed");
      }
   }
   try
   {
      e.ret = f();
   }
   catch(const std::exception& x)
   {
      e.threw = true;
      e.extype = excName(x);
   }
   catch(...)
   {
      e.threw = true;
      e.extype = "unknown";
   }
   return e;
}

// ------------------------------------------------------------------------------------------------ oracle
struct Mis
{
   std::string param, kind, detail;     // kind: "value" | "seed" | "derived:<label>" | "lp"
};
static const char* PRICER_NAMES[] = {"Auto", "Dantzig", "ParMult", "Devex", "Steep", "SteepEx"};
static const char* RT_NAMES[] = {"Default", "Harris", "Fast", "Bound Flipping"};
static const char* SCALER_NAMES[] = {"none", "uni-Equilibrium", "bi-Equilibrium", "Geometric", "Geometric", "Least squares", "Geometric"};
static const char* STARTER_NAMES[] = {"none", "Weight", "Sum", "vector"};
static const char* SIMPLIFIER_NAMES[] = {"none", "MainSM", "PaPILO", "MainSM"};

static bool sameD(double a, double b)
{
   return a == b || (std::isnan(a) && std::isnan(b));
}
static Q ratOfDouble(double d)
{
   return qd(d);
}
static void checkParams(SoPlex& s, const Model& m, std::vector<Mis>& out)
{
   Sink& S = sink();
   S.count("oracle.evaluations");
   for(int p = 0; p < T.nb; p++)
      if(s.boolParam((SoPlex::BoolParam)p) != (bool)m.b[p])
         out.push_back({T.bn[p], "value", "boolParam(" + T.bn[p] + ") = " + (m.b[p] ? "false" : "true") + ", model " + (m.b[p] ? "true" : "false")});
   for(int p = 0; p < T.ni; p++)
      if(s.intParam((SoPlex::IntParam)p) != m.i[p])
         out.push_back({T.in[p], "value", "intParam(" + T.in[p] + ") = " + std::to_string(s.intParam((SoPlex::IntParam)p)) + ", model " + std::to_string(m.i[p])});
   for(int p = 0; p < T.nr; p++)
      if(!sameD(s.realParam((SoPlex::RealParam)p), m.r[p]))
         out.push_back({T.rn[p], "value", "realParam(" + T.rn[p] + ") = " + ds(s.realParam((SoPlex::RealParam)p)) + ", model " + ds(m.r[p])});
   if(s.randomSeed() != m.seed) out.push_back({"random_seed", "seed", "randomSeed() = " + std::to_string(s.randomSeed()) + ", model " + std::to_string(m.seed)});
   // ---- derived state
   auto der = [&](const char* param, const char* label, bool ok, const std::string & d)
   {
      if(!ok) out.push_back({param, std::string("derived:") + label, d});
   };
   auto nameIs = [](const char* a, const char* b)
   {
      return a && b && strcmp(a, b) == 0;
   };
   int v;
   v = m.i[SoPlex::PRICER];
   der("pricer", "pricer-name", v >= 0 && v <= 5 && nameIs(s.getPricerName(), PRICER_NAMES[v]), std::string("getPricerName() = ") + s.getPricerName() + " with pricer = " + std::to_string(v));
   {
      const void* pp[] = {&s._pricerAuto, &s._pricerDantzig, &s._pricerParMult, &s._pricerDevex, &s._pricerQuickSteep, &s._pricerSteep};
      der("pricer", "pricer-object", (const void*)s._solver.pricer() == pp[v], "solver's pricer object is not the one selected by pricer = " + std::to_string(v));
   }
   v = m.i[SoPlex::RATIOTESTER];
   der("ratiotester", "ratiotester-name", nameIs(s.getRatiotesterName(), RT_NAMES[v]), std::string("getRatiotesterName() = ") + s.getRatiotesterName() + " with ratiotester = " + std::to_string(v));
   v = m.i[SoPlex::SCALER];
   der("scaler", "scaler-name", nameIs(s.getScalerName(), SCALER_NAMES[v]), std::string("getScalerName() = ") + s.getScalerName() + " with scaler = " + std::to_string(v));
   {
      const void* pp[] = {nullptr, &s._scalerUniequi, &s._scalerBiequi, &s._scalerGeo1, &s._scalerGeo8, &s._scalerLeastsq, &s._scalerGeoequi};
      der("scaler", "scaler-object", (const void*)s._scaler == pp[v], "scaler object is not the one selected by scaler = " + std::to_string(v));
   }
   if(v == SoPlex::SCALER_LEASTSQ)
   {
      der("scaler", "leastsq_maxrounds", s._scalerLeastsq.maxrounds == m.i[SoPlex::LEASTSQ_MAXROUNDS],
          "least-squares scaler is selected and would use maxrounds = " + std::to_string(s._scalerLeastsq.maxrounds) + " but leastsq_maxrounds = " + std::to_string(m.i[SoPlex::LEASTSQ_MAXROUNDS]));
      der("scaler", "leastsq_acrcy", (double)s._scalerLeastsq.acrcydivisor == m.r[SoPlex::LEASTSQ_ACRCY],
          "least-squares scaler is selected and would use accuracy = " + ds((double)s._scalerLeastsq.acrcydivisor) + " but leastsq_acrcy = " + ds(m.r[SoPlex::LEASTSQ_ACRCY]));
   }
   v = m.i[SoPlex::STARTER];
   der("starter", "starter-name", nameIs(s.getStarterName(), STARTER_NAMES[v]), std::string("getStarterName() = ") + s.getStarterName() + " with starter = " + std::to_string(v));
   v = m.i[SoPlex::SIMPLIFIER];
   der("simplifier", "simplifier-name", nameIs(s.getSimplifierName(), SIMPLIFIER_NAMES[v]), std::string("getSimplifierName() = ") + s.getSimplifierName() + " with simplifier = " + std::to_string(v));
   der("verbosity", "spxout-verbosity", (int)s.spxout.getVerbosity() == m.i[SoPlex::VERBOSITY], "spxout verbosity " + std::to_string((int)s.spxout.getVerbosity()) + " with verbosity = " + std::to_string(m.i[SoPlex::VERBOSITY]));
   auto tol = s.tolerances();
   der("feastol", "tolerances-feastol", sameD(tol->feastol(), m.r[SoPlex::FEASTOL]), "tolerances()->feastol() = " + ds(tol->feastol()) + ", feastol = " + ds(m.r[SoPlex::FEASTOL]));
   der("opttol", "tolerances-opttol", sameD(tol->opttol(), m.r[SoPlex::OPTTOL]), "tolerances()->opttol() = " + ds(tol->opttol()) + ", opttol = " + ds(m.r[SoPlex::OPTTOL]));
   der("epsilon_zero", "tolerances-epsilon", sameD(tol->epsilon(), m.r[SoPlex::EPSILON_ZERO]), "tolerances()->epsilon() = " + ds(tol->epsilon()) + ", epsilon_zero = " + ds(m.r[SoPlex::EPSILON_ZERO]));
   der("epsilon_factorization", "tolerances-epsfactor", sameD(tol->epsilonFactorization(), m.r[SoPlex::EPSILON_FACTORIZATION]), "tolerances()->epsilonFactorization() = " + ds(tol->epsilonFactorization()));
   der("epsilon_update", "tolerances-epsupdate", sameD(tol->epsilonUpdate(), m.r[SoPlex::EPSILON_UPDATE]), "tolerances()->epsilonUpdate() = " + ds(tol->epsilonUpdate()));
   der("epsilon_pivot", "tolerances-epspivot", sameD(tol->epsilonPivot(), m.r[SoPlex::EPSILON_PIVOT]), "tolerances()->epsilonPivot() = " + ds(tol->epsilonPivot()));
   der("fpfeastol", "tolerances-fpfeastol", sameD(tol->floatingPointFeastol(), m.r[SoPlex::FPFEASTOL]), "tolerances()->floatingPointFeastol() = " + ds(tol->floatingPointFeastol()));
   der("fpopttol", "tolerances-fpopttol", sameD(tol->floatingPointOpttol(), m.r[SoPlex::FPOPTTOL]), "tolerances()->floatingPointOpttol() = " + ds(tol->floatingPointOpttol()));
   der("feastol", "rational-feastol", Q(s._rationalFeastol) == ratOfDouble(m.r[SoPlex::FEASTOL]), "rational feasibility tolerance differs from feastol");
   der("opttol", "rational-opttol", Q(s._rationalOpttol) == ratOfDouble(m.r[SoPlex::OPTTOL]), "rational optimality tolerance differs from opttol");
   der("infty", "rational-infty", Q(s._rationalPosInfty) == ratOfDouble(m.r[SoPlex::INFTY]) && Q(s._rationalNegInfty) == Q(-ratOfDouble(m.r[SoPlex::INFTY])), "rational infinity differs from infty");
   der("maxscaleincr", "rational-maxscaleincr", Q(s._rationalMaxscaleincr) == ratOfDouble(m.r[SoPlex::MAXSCALEINCR]), "rational maxscaleincr differs from the parameter");
   der("syncmode", "rational-lp-presence", (s._rationalLP != nullptr) == (m.i[SoPlex::SYNCMODE] != SoPlex::SYNCMODE_ONLYREAL),
       std::string("rational LP is ") + (s._rationalLP ? "present" : "absent") + " with syncmode = " + std::to_string(m.i[SoPlex::SYNCMODE]));
   der("displayfreq", "solver-displayfreq", s._solver.getDisplayFreq() == m.i[SoPlex::DISPLAYFREQ], "solver display frequency " + std::to_string(s._solver.getDisplayFreq()));
   der("factor_update_type", "slufactor-utype", (int)s._slufactor.utype() == (m.i[SoPlex::FACTOR_UPDATE_TYPE] == SoPlex::FACTOR_UPDATE_TYPE_ETA ? (int)SLUFactor<double>::ETA : (int)SLUFactor<double>::FOREST_TOMLIN), "LU update type differs");
   der("factor_update_max", "basis-maxupdates", s._solver.basis().getMaxUpdates() == (m.i[SoPlex::FACTOR_UPDATE_MAX] == 0 ? 200 : m.i[SoPlex::FACTOR_UPDATE_MAX]), "basis max updates " + std::to_string(s._solver.basis().getMaxUpdates()));
   der("min_markowitz", "slufactor-markowitz", (double)s._slufactor.minThreshold == m.r[SoPlex::MIN_MARKOWITZ], "LU Markowitz threshold " + ds((double)s._slufactor.minThreshold));
   der("fullperturbation", "solver-fullperturbation", s._solver.fullPerturbation == (bool)m.b[SoPlex::FULLPERTURBATION], "solver full perturbation flag differs");
   der("rowboundflips", "boundflipping-rowflips", s._ratiotesterBoundFlipping.enableRowBoundFlips == (bool)m.b[SoPlex::ROWBOUNDFLIPS], "bound flipping ratio tester row flag differs");
   der("solution_polishing", "solver-polishing", (int)s._solver.polishObj == m.i[SoPlex::SOLUTION_POLISHING], "solver polishing objective " + std::to_string((int)s._solver.polishObj));
   der("printbasismetric", "solver-basismetric", s._solver.printBasisMetric == m.i[SoPlex::PRINTBASISMETRIC], "solver basis metric " + std::to_string(s._solver.printBasisMetric));
   der("storeBasisSimplexFreq", "solver-storebasisfreq", s._solver.storeBasisSimplexFreq == m.i[SoPlex::STORE_BASIS_SIMPLEX_FREQ], "solver store-basis frequency " + std::to_string(s._solver.storeBasisSimplexFreq));
   der("timer", "solver-timer", (int)s._solver.timerType == m.i[SoPlex::TIMER], "solver timer type " + std::to_string((int)s._solver.timerType));
}

// the stored LP must be the loaded LP with sense / offset given by the parameters
static bool infD(double d)
{
   return d >= 1e100 || d <= -1e100;
}
static std::string lpDiff(SoPlex& s, const Model& m, const LPModel* M)
{
   int em = M ? M->m : 0, en = M ? M->n : 0;
   if(s.numRows() != em || s.numCols() != en) return "dimensions " + std::to_string(s.numRows()) + "x" + std::to_string(s.numCols()) + ", loaded " + std::to_string(em) + "x" + std::to_string(en);
   int sense = s._realLP->spxSense() == SPxLPBase<double>::MAXIMIZE ? 1 : -1;
   if(sense != m.i[SoPlex::OBJSENSE]) return "stored sense " + std::to_string(sense) + ", objsense " + std::to_string(m.i[SoPlex::OBJSENSE]);
   if(!sameD((double)s._realLP->objOffset(), m.r[SoPlex::OBJ_OFFSET])) return "stored offset " + ds((double)s._realLP->objOffset()) + ", obj_offset " + ds(m.r[SoPlex::OBJ_OFFSET]);
   auto eqB = [](double d, const Q & q)
   {
      if(isPInf(q)) return d >= 1e100;
      if(isNInf(q)) return d <= -1e100;
      return !infD(d) && qd(d) == q;
   };
   for(int j = 0; j < en; j++)
   {
      if(!eqB(s.objReal(j), M->obj[j])) return "objReal(" + std::to_string(j) + ") = " + ds(s.objReal(j)) + ", loaded " + ds(dq(M->obj[j]));
      if(!eqB(s.lowerReal(j), M->lo[j])) return "lowerReal(" + std::to_string(j) + ") changed";
      if(!eqB(s.upperReal(j), M->up[j])) return "upperReal(" + std::to_string(j) + ") changed";
   }
   for(int i = 0; i < em; i++)
   {
      if(!eqB(s.lhsReal(i), M->lhs[i])) return "lhsReal(" + std::to_string(i) + ") changed";
      if(!eqB(s.rhsReal(i), M->rhs[i])) return "rhsReal(" + std::to_string(i) + ") changed";
      DSVectorReal r;
      s.getRowVectorReal(i, r);
      std::vector<Q> row(en, Q(0));
      for(int k = 0; k < r.size(); k++) if(r.index(k) >= 0 && r.index(k) < en) row[r.index(k)] = qd(r.value(k));
      for(int j = 0; j < en; j++) if(row[j] != M->A[i][j]) return "matrix entry (" + std::to_string(i) + "," + std::to_string(j) + ") changed";
   }
   if(m.rat == 1 && s._rationalLP != nullptr)
   {
      sink().count("oracle.rational_lp_checked");
      if(s.numRowsRational() != em || s.numColsRational() != en) return "rational LP dimensions differ from the real LP";
      int rs = s._rationalLP->spxSense() == SPxLPRational::MAXIMIZE ? 1 : -1;
      if(rs != m.i[SoPlex::OBJSENSE]) return "rational LP sense differs from objsense";
      if(Q(s._rationalLP->objOffset()) != qd(m.r[SoPlex::OBJ_OFFSET])) return "rational LP offset differs from obj_offset";
      auto eqR = [](const Rational & r, const Q & q)
      {
         if(isPInf(q)) return r >= Rational(1e100);
         if(isNInf(q)) return r <= Rational(-1e100);
         return Q(r) == q;
      };
      for(int j = 0; j < en; j++)
      {
         if(!eqR(s.objRational(j), M->obj[j])) return "objRational(" + std::to_string(j) + ") differs";
         if(!eqR(s.lowerRational(j), M->lo[j]) || !eqR(s.upperRational(j), M->up[j])) return "rational bound of column " + std::to_string(j) + " differs";
      }
      for(int i = 0; i < em; i++)
      {
         if(!eqR(s.lhsRational(i), M->lhs[i]) || !eqR(s.rhsRational(i), M->rhs[i])) return "rational side of row " + std::to_string(i) + " differs";
         const SVectorRational& r = s.rowVectorRational(i);
         std::vector<Q> row(en, Q(0));
         for(int k = 0; k < r.size(); k++) if(r.index(k) >= 0 && r.index(k) < en) row[r.index(k)] = Q(r.value(k));
         for(int j = 0; j < en; j++) if(row[j] != M->A[i][j]) return "rational matrix entry (" + std::to_string(i) + "," + std::to_string(j) + ") differs";
      }
   }
   return "";
}

// ------------------------------------------------------------------------------------------------ case context
struct NullBuf : public std::streambuf
{
   long chars = 0;
   int overflow(int c) override
   {
      if(c != EOF) chars++;
      return c;
   }
};
static NullBuf g_nullbuf;
static std::ostream g_nullos(&g_nullbuf);
static void silence(SoPlex& s)      // solver messages must not reach stdout (event protocol); verbosity itself is left alone
{
   for(int v = 0; v <= 5; v++) s.spxout.setStream((SPxOut::Verbosity)v, g_nullos);
}
static void loadLPInto(SoPlex& s, Model& m, const LPModel& M, int mode)
{
   loadReal(s, M, mode);                         // sets objsense and obj_offset through the typed setters
   m.i[SoPlex::OBJSENSE] = M.sense > 0 ? 1 : -1;
   m.r[SoPlex::OBJ_OFFSET] = dq(M.offset);
}

struct Ctx
{
   Rng& g;
   long long k;
   std::unique_ptr<SoPlex> sp;
   Model m;
   bool hasLP = false;
   LPModel M;
   int loadMode = 0;
   std::vector<std::string> hist;
   uint64_t shape = 1469598103934665603ULL;
   int nops = 0, nviolOps = 0;
   bool dead = false;          // state could not be re-synchronised: stop the case
   int fileCounter = 0;
   std::unique_ptr<SoPlex> donor;
   Model dm;
   std::unique_ptr<SoPlex::Settings> snap;
   Model snapm;

   Ctx(Rng& g_, long long k_) : g(g_), k(k_)
   {
      sp.reset(new SoPlex());
      silence(*sp);
   }
   std::string tmpFile()
   {
      return cli.tmpdir + "/c15_" + std::to_string((long)getpid()) + "_" + std::to_string(k) + "_" + std::to_string(fileCounter++) + ".set";
   }
   std::string replay(const std::string& extra = "")
   {
      std::string a = "[";
      size_t from = hist.size() > 80 ? hist.size() - 80 : 0;
      for(size_t q = from; q < hist.size(); q++) a += (q > from ? "," : "") + std::string("\"") + jesc(hist[q]) + "\"";
      a += "]";
      Json j;
      j.raw("history", a).boolean("lp_loaded", hasLP);
      if(hasLP) j.str("lp_text", M.toLPText());
      if(!extra.empty()) j.str("input", extra);
      return j.done();
   }
   void note(const std::string& op, const std::string& pname, const std::string& cls, const std::string& what)
   {
      Sink& S = sink();
      nops++;
      S.count("ops.total");
      S.count("ops." + op);
      if(pname != "-" || cls != "-") S.count("pc." + pname + "." + cls);
      S.seen("cells", fnv(op + ":" + pname + ":" + cls));
      shape = fnv(op + ":" + pname + ":" + cls, shape);
      hist.push_back(what);
      if(verbose) fprintf(stderr, "  op %3d %s\n", nops, what.c_str());
   }
   void viol(const std::string& key, const std::string& detail, const std::string& extra = "")
   {
      if(verbose) fprintf(stderr, "  VIOL %s | %s\n", key.c_str(), detail.c_str());
      sink().viol(key, detail + " | after: " + (hist.empty() ? "" : hist.back()), replay(extra));
   }
   std::vector<Mis> diffAll()
   {
      std::vector<Mis> out;
      checkParams(*sp, m, out);
      std::string d = lpDiff(*sp, m, hasLP ? &M : nullptr);
      if(!d.empty()) out.push_back({"-", "lp", d});
      return out;
   }
   // after a violation: rebuild a fresh object from the model through the typed setters
   void heal()
   {
      Sink& S = sink();
      S.count("heal.rebuilds");
      nviolOps++;
      sp.reset(new SoPlex());
      silence(*sp);
      Model target = m;
      Model fresh;
      if(hasLP) loadLPInto(*sp, fresh, M, loadMode);
      bool ok = true;
      for(int p = 0; p < T.nb; p++) ok = sp->setBoolParam((SoPlex::BoolParam)p, target.b[p]) && ok;
      for(int p = 0; p < T.ni; p++) ok = sp->setIntParam((SoPlex::IntParam)p, target.i[p]) && ok;
      for(int p = 0; p < T.nr; p++) ok = sp->setRealParam((SoPlex::RealParam)p, target.r[p]) && ok;
      sp->setRandomSeed(target.seed);
      m.rat = target.i[SoPlex::SYNCMODE] == 0 ? 0 : target.i[SoPlex::SYNCMODE] == 1 ? 1 : 2;
      std::vector<Mis> d = diffAll();
      if(!ok || !d.empty())
      {
         S.count("heal.failed");
         dead = true;
         if(verbose) fprintf(stderr, "  heal failed: %s\n", d.empty() ? "setter returned false" : d[0].detail.c_str());
      }
      hist.push_back("<object rebuilt from the model through the typed setters>");
   }
   // verdict for an operation that targets one parameter
   void judgeSingle(const std::string& op, const std::string& pname, const std::string& cls, bool expRet, const Exec& e, const std::string& input = "")
   {
      std::string base = "C15:" + op + ":" + pname + ":" + cls;
      if(e.crashed)
      {
         viol(base + ":crash", "the call dies: " + e.how + " (observed in a forked probe; the call was not repeated in the worker)", input);
         sink().count("viol.crash");
         heal();
         return;
      }
      if(e.threw)
      {
         viol("C15:exception:" + op + ":" + pname + ":" + e.extype, "exception " + e.extype + " escapes " + op + " (documented failure mode is the bool return); parameter class " + cls, input);
         heal();
         return;
      }
      bool bad = false;
      if(e.ret != expRet)
      {
         viol(base + (e.ret ? ":accepted" : ":rejected"), op + " returned " + (e.ret ? "true" : "false") + ", the documented range/choices/build predict " + (expRet ? "true" : "false"), input);
         bad = true;
      }
      std::vector<Mis> d = diffAll();
      if(!bad)
      {
         std::set<std::string> keys;
         for(auto& x : d)
         {
            std::string what;
            if(!expRet) what = "not-atomic";
            else if(x.kind == "value" && x.param == pname) what = "not-stored";
            else if(x.kind == "seed" && pname == "random_seed") what = "not-stored";
            else if(x.kind == "value" || x.kind == "seed") what = "side-effect:" + x.param;
            else if(x.kind == "lp") what = "lp-changed";
            else what = x.kind;
            if(keys.insert(what).second) viol(base + ":" + what, x.detail, input);
         }
      }
      if(bad || !d.empty()) heal();
   }
   // ---- typed operations
   void setBool(int p, bool v, bool init, const std::string& cls)
   {
      note("setBoolParam", T.bn[p], cls, "setBoolParam(" + T.bn[p] + ", " + (v ? "true" : "false") + ", init=" + (init ? "true" : "false") + ") [" + cls + "]");
      bool exp = predBool(m, p, v);
      SoPlex* s = sp.get();
      Exec e = runProbed([ = ]() { return s->setBoolParam((SoPlex::BoolParam)p, v, init); }, false);
      judgeSingle("setBoolParam", T.bn[p], cls, exp, e);
   }
   void setInt(int p, int v, bool init, const std::string& cls)
   {
      note("setIntParam", T.in[p], cls, "setIntParam(" + T.in[p] + ", " + std::to_string(v) + ", init=" + (init ? "true" : "false") + ") [" + cls + "]");
      bool exp = predInt(m, p, v);
      SoPlex* s = sp.get();
      Exec e = runProbed([ = ]() { return s->setIntParam((SoPlex::IntParam)p, v, init); }, false);
      judgeSingle("setIntParam", T.in[p], cls, exp, e);
   }
   void setReal(int p, double v, bool init, const std::string& cls)
   {
      note("setRealParam", T.rn[p], cls, "setRealParam(" + T.rn[p] + ", " + ds(v) + ", init=" + (init ? "true" : "false") + ") [" + cls + "]");
      bool exp = predReal(m, p, v);
      SoPlex* s = sp.get();
      Exec e = runProbed([ = ]() { return s->setRealParam((SoPlex::RealParam)p, v, init); }, !std::isfinite(v));
      judgeSingle("setRealParam", T.rn[p], cls, exp, e);
   }
   void setSeed(unsigned v, const std::string& cls)
   {
      note("setRandomSeed", "random_seed", cls, "setRandomSeed(" + std::to_string(v) + ") [" + cls + "]");
      m.seed = v;
      SoPlex* s = sp.get();
      Exec e = runProbed([ = ]() { s->setRandomSeed(v); return true; }, false);
      judgeSingle("setRandomSeed", "random_seed", cls, true, e);
   }
   // ---- parseSettingsString
   void parse(const Line& l)
   {
      std::string pn = l.kind == 2 ? "-" : l.pname;
      note("parseSettingsString", pn, l.cls, "parseSettingsString(\"" + l.text + "\") [" + l.cls + "]");
      bool exp = predLine(m, l);
      SoPlex* s = sp.get();
      std::string text = l.text;
      bool risky = l.kind == 0 && l.ptype == 'r' && l.parsable && !std::isfinite(l.rv);
      Exec e = runProbed([ = ]()
      {
         std::vector<char> buf(text.begin(), text.end());      // exactly sized heap buffer: an over-read is an ASan report
         buf.push_back('\0');
         return s->parseSettingsString(buf.data());
      }, risky);
      if(l.kind == 2 && (l.cls == "bare-type" || l.cls == "name-only"))
      {
         // the text ends right after the type / the name: the parser steps over the terminating NUL; whatever happens
         // then (stale bytes of an earlier call) has one root cause and one key
         std::vector<Mis> d = e.crashed || e.threw ? std::vector<Mis>() : diffAll();
         if(e.crashed || e.threw || e.ret || !d.empty())
         {
            viol("C15:parseSettingsString:-:" + l.cls + ":reads-past-end", "parseSettingsString(\"" + l.text + "\") must fail without effect; observed: " +
                 (e.crashed ? "crash: " + e.how : e.threw ? "exception " + e.extype : std::string(e.ret ? "returned true" : "returned false") + (d.empty() ? "" : "; " + d[0].detail)), l.text);
            heal();
         }
         return;
      }
      if(e.threw)
      {
         viol(std::string("C15:exception:parseSettingsString:") + typeWord(l.ptype) + "-value:" + e.extype,
              "exception " + e.extype + " escapes parseSettingsString(\"" + l.text + "\") (documented failure mode is the bool return)", l.text);
         heal();
         return;
      }
      judgeSingle("parseSettingsString", pn, l.cls, exp, e, l.text);
   }
   // ---- loadSettingsFile
   void loadFile(const std::vector<Line>& lines, bool trailingNewline, bool missingFile)
   {
      Sink& S = sink();
      std::string path = tmpFile();
      std::string content;
      const Line* special = nullptr;
      for(size_t q = 0; q < lines.size(); q++)
      {
         content += lines[q].text;
         if(q + 1 < lines.size() || trailingNewline) content += "\n";
         if(!special && lines[q].kind != 1 && lines[q].cls != "valid" && lines[q].cls != "true" && lines[q].cls != "false") special = &lines[q];
      }
      std::string pn = special ? (special->kind == 2 ? "-" : special->pname) : "-", cl = special ? special->cls : (missingFile ? "missing-file" : "valid-lines");
      note("loadSettingsFile", pn, cl, "loadSettingsFile(" + std::to_string(lines.size()) + " lines" + (missingFile ? ", file does not exist" : "") + ") [" + cl + "]: " + content.substr(0, 400));
      S.count("file.lines", (long long)lines.size());
      bool expRet = true;
      if(missingFile) expRet = false;
      else
      {
         std::ofstream f(path);
         f << content;
         f.close();
         for(auto& l : lines)
         {
            if(l.kind == 3)
            {
               expRet = false;      // documented: line too long => error, reading stops
               break;
            }
            predLine(m, l);        // failures of single lines are reported by a message only; the file load goes on
         }
      }
      SoPlex* s = sp.get();
      bool risky = false;
      for(auto& l : lines) if(l.kind == 0 && l.ptype == 'r' && l.parsable && !std::isfinite(l.rv)) risky = true;
      Exec e = runProbed([ = ]() { return s->loadSettingsFile(path.c_str()); }, risky);
      unlink(path.c_str());
      std::string base = "C15:loadSettingsFile:" + pn + ":" + cl;
      bool truncated = special && special->kind == 2 && (special->cls == "bare-type" || special->cls == "name-only");
      if(e.crashed)
      {
         viol(base + ":crash", "loadSettingsFile dies: " + e.how + " (forked probe)", content);
         S.count("viol.crash");
         heal();      // the model holds the predicted effect of all lines: rebuild the object from it
         return;
      }
      std::vector<Mis> d = e.threw ? std::vector<Mis>() : diffAll();
      if(truncated && (e.threw || e.ret != expRet || !d.empty()))
      {
         viol("C15:loadSettingsFile:-:" + special->cls + ":reads-past-end", "a line that ends right after the type / the name must be skipped with a message; observed: " +
              (e.threw ? "exception " + e.extype : std::string(e.ret ? "returned true" : "returned false") + (d.empty() ? "" : "; " + d[0].detail)), content);
         heal();
         return;
      }
      if(e.threw)
      {
         const Line* cul = nullptr;
         for(auto& l : lines) if(l.kind == 0 && (!l.parsable || (l.ptype == 'r' && l.rv != 0 && std::fabs(l.rv) < 2.3e-308))) { cul = &l; break; }
         std::string site = missingFile ? "missing-file" : cul ? std::string(typeWord(cul->ptype)) + "-value" : "unknown";
         viol("C15:exception:loadSettingsFile:" + site + ":" + e.extype,
              "exception " + e.extype + " escapes loadSettingsFile (documented failure mode is a message and the bool return)" + (cul ? "; line <" + cul->text + ">" : ""), content);
         heal();
         return;
      }
      bool bad = false;
      if(e.ret != expRet)
      {
         viol(base + (e.ret ? ":returned-true" : ":returned-false"), std::string("loadSettingsFile returned ") + (e.ret ? "true" : "false") + ", documented behaviour predicts " + (expRet ? "true" : "false"), content);
         bad = true;
      }
      std::set<std::string> keys, explained;
      auto predicted = [&](const Line & l)
      {
         Model tmp = m;
         return l.parsable && predLine(tmp, l);
      };
      auto arrived = [&](const Line & l)          // does the parameter now hold the value of this line?
      {
         if(l.ptype == 'b') return sp->boolParam((SoPlex::BoolParam)l.p) == (l.parsable ? l.bv : false);
         if(l.ptype == 'i') return l.parsable && sp->intParam((SoPlex::IntParam)l.p) == l.iv;
         if(l.ptype == 'r') return l.parsable && sameD(sp->realParam((SoPlex::RealParam)l.p), l.rv);
         return l.parsable && sp->randomSeed() == (l.uv > UINT_MAX ? UINT_MAX : (unsigned)l.uv);
      };
      // lines that must be rejected but whose value arrived in the parameter
      for(auto& x : d)
      {
         if(x.kind != "value" && x.kind != "seed") continue;
         const Line* tl = nullptr;
         for(auto& l : lines) if(l.kind == 0 && l.pname == x.param && !predicted(l) && arrived(l)) tl = &l;
         if(!tl) continue;
         explained.insert(x.param);
         std::string key = "C15:loadSettingsFile:" + tl->pname + ":" + tl->cls + ":accepted";
         if(keys.insert(key).second) viol(key, "line <" + tl->text + "> must be rejected without effect: " + x.detail, content);
      }
      for(auto& x : d)
      {
         if(explained.count(x.param) || (!explained.empty() && x.kind == "lp")) continue;
         const Line* tl = nullptr, *acc = nullptr;
         for(auto& l : lines) if(l.kind == 0 && l.pname == x.param)
            {
               tl = &l;
               if(predicted(l)) acc = &l;
            }
         std::string key;
         if(acc) key = "C15:loadSettingsFile:" + acc->pname + ":" + acc->cls + ":" + (x.kind == "value" || x.kind == "seed" ? "not-stored" : x.kind);
         else if(tl) key = "C15:loadSettingsFile:" + tl->pname + ":" + tl->cls + ":not-atomic";
         else if(special && special->kind == 2 && (x.kind == "value" || x.kind == "seed")) key = "C15:loadSettingsFile:-:" + special->cls + ":accepted";     // a malformed line had an effect
         else key = "C15:loadSettingsFile:" + x.param + ":-:" + (x.kind == "lp" ? "lp-changed" : x.kind == "value" || x.kind == "seed" ? "side-effect" : x.kind);
         if(keys.insert(key).second) viol(key, x.detail, content);
      }
      if(bad || !d.empty()) heal();
   }
   // ---- saveSettingsFile + independent reading + reload into a fresh object
   void saveReload(bool onlyChanged)
   {
      Sink& S = sink();
      std::string path = tmpFile();
      std::string oc = onlyChanged ? "only-changed" : "all";
      note("saveSettingsFile", "-", oc, "saveSettingsFile(onlyChanged=" + std::string(onlyChanged ? "true" : "false") + ") + reload into a fresh object");
      SoPlex* s = sp.get();
      Exec e = runProbed([ = ]() { return s->saveSettingsFile(path.c_str(), onlyChanged); }, false);
      if(e.crashed || e.threw)
      {
         judgeSingle("saveSettingsFile", "-", oc, true, e);
         unlink(path.c_str());
         return;
      }
      judgeSingle("saveSettingsFile", "-", oc, true, e);     // returns true, changes nothing
      if(dead)
      {
         unlink(path.c_str());
         return;
      }
      std::vector<SavedEntry> ent;
      std::string err;
      if(!readSaved(path, ent, err))
      {
         viol("C15:saveSettingsFile:-:" + oc + ":unreadable", "saved settings file cannot be read back: " + err);
         unlink(path.c_str());
         return;
      }
      S.count("save.entries", (long long)ent.size());
      // (a) the file states the model
      std::map<std::string, const SavedEntry*> byName;
      for(auto& x : ent)
      {
         std::string nm = x.type + ":" + x.name;
         if(byName.count(nm)) viol("C15:saveSettingsFile:" + x.name + ":" + oc + ":duplicate", "parameter written twice");
         byName[nm] = &x;
      }
      Model fm;                       // expected state of a fresh object after loading the file
      size_t expected = 0;
      for(int p = 0; p < T.nb; p++)
      {
         bool want = !onlyChanged || m.b[p] != T.bdef[p];
         auto it = byName.find("bool:" + T.bn[p]);
         if(want != (it != byName.end())) viol("C15:saveSettingsFile:" + T.bn[p] + ":" + oc + (want ? ":missing" : ":unexpected"), "bool parameter " + T.bn[p] + (want ? " is not written" : " is written although unchanged"));
         if(it == byName.end()) continue;
         expected++;
         if(it->second->value != (m.b[p] ? "true" : "false")) viol("C15:saveSettingsFile:" + T.bn[p] + ":" + oc + ":wrong-value", "written <" + it->second->value + "> for " + (m.b[p] ? "true" : "false"));
         if(it->second->rangeLine != std::string("{true, false}, default ") + (T.bdef[p] ? "true" : "false")) viol("C15:saveSettingsFile:" + T.bn[p] + ":" + oc + ":wrong-doc", "documentation line <" + it->second->rangeLine + ">");
         fm.b[p] = m.b[p];
      }
      for(int p = 0; p < T.ni; p++)
      {
         bool want = !onlyChanged || m.i[p] != T.idef[p];
         auto it = byName.find("int:" + T.in[p]);
         if(want != (it != byName.end())) viol("C15:saveSettingsFile:" + T.in[p] + ":" + oc + (want ? ":missing" : ":unexpected"), "int parameter " + T.in[p] + (want ? " is not written" : " is written although unchanged"));
         if(it == byName.end()) continue;
         expected++;
         if(it->second->value != std::to_string(m.i[p])) viol("C15:saveSettingsFile:" + T.in[p] + ":" + oc + ":wrong-value", "written <" + it->second->value + "> for " + std::to_string(m.i[p]));
         std::string doc = "[" + std::to_string(T.ilo[p]) + "," + std::to_string(T.ihi[p]) + "], default " + std::to_string(T.idef[p]);
         if(it->second->rangeLine != doc) viol("C15:saveSettingsFile:" + T.in[p] + ":" + oc + ":wrong-doc", "documentation line <" + it->second->rangeLine + ">, table says <" + doc + ">");
         Model tmp = fm;
         predInt(fm, p, m.i[p]);
      }
      for(int p = 0; p < T.nr; p++)
      {
         bool want = !onlyChanged || !(m.r[p] == T.rdef[p]);
         auto it = byName.find("real:" + T.rn[p]);
         if(want != (it != byName.end())) viol("C15:saveSettingsFile:" + T.rn[p] + ":" + oc + (want ? ":missing" : ":unexpected"), "real parameter " + T.rn[p] + (want ? " is not written" : " is written although unchanged"));
         if(it == byName.end()) continue;
         expected++;
         // printed precision: scientific with 8 decimals (SPxOut::setScientific documents precision 8); the text must be the correct rounding
         if(it->second->value != sci8(m.r[p]) && !(m.r[p] == 0 && (it->second->value == sci8(0.0) || it->second->value == sci8(-0.0)))) viol("C15:saveSettingsFile:" + T.rn[p] + ":" + oc + ":bad-precision", "written <" + it->second->value + "> for " + ds(m.r[p]) + ", expected <" + sci8(m.r[p]) + ">");
         std::string doc = "[" + sci8(T.rlo[p]) + "," + sci8(T.rhi[p]) + "], default " + sci8(T.rdef[p]);
         if(it->second->rangeLine != doc) viol("C15:saveSettingsFile:" + T.rn[p] + ":" + oc + ":wrong-doc", "documentation line <" + it->second->rangeLine + ">, table says <" + doc + ">");
         double back = strtod(sci8(m.r[p]).c_str(), nullptr);
         double rel = std::fabs(back - m.r[p]) / std::max(std::fabs(m.r[p]), 1e-300);
         if(m.r[p] != 0 && std::fabs(m.r[p]) > 1e-300) S.maxi("save.real_roundtrip_relerr/5e-9", rel / 5e-9);
         predReal(fm, p, back);
      }
      {
         bool want = !onlyChanged || m.seed != 0;
         auto it = byName.find("uint:random_seed");
         if(want != (it != byName.end())) viol("C15:saveSettingsFile:random_seed:" + oc + (want ? ":missing" : ":unexpected"), std::string("random seed ") + (want ? "is not written" : "is written although unchanged"));
         if(it != byName.end())
         {
            expected++;
            if(it->second->value != std::to_string(m.seed)) viol("C15:saveSettingsFile:random_seed:" + oc + ":wrong-value", "written <" + it->second->value + "> for " + std::to_string(m.seed));
            fm.seed = m.seed;
         }
      }
      if(ent.size() != expected) viol("C15:saveSettingsFile:-:" + oc + ":unknown-entries", std::to_string(ent.size()) + " entries written, " + std::to_string(expected) + " expected");
      // (b) reload
      S.count("ops.reload");
      std::unique_ptr<SoPlex> f(new SoPlex());
      silence(*f);
      SoPlex* fp = f.get();
      Exec e2 = runProbed([ = ]() { return fp->loadSettingsFile(path.c_str()); }, false);
      unlink(path.c_str());
      if(e2.crashed)
      {
         viol("C15:reload:-:" + oc + ":crash", "loading the file written by saveSettingsFile dies: " + e2.how);
         return;
      }
      if(e2.threw)
      {
         std::string culprit;
         for(int p = 0; p < T.nr; p++) if(m.r[p] != 0 && std::fabs(m.r[p]) < 2.3e-308) culprit = T.rn[p];
         viol("C15:exception:loadSettingsFile:real-value:" + e2.extype, "exception " + e2.extype + " escapes loadSettingsFile while re-loading a file written by saveSettingsFile" +
              (culprit.empty() ? "" : " (subnormal value of " + culprit + ")"));
         return;
      }
      if(!e2.ret) viol("C15:reload:-:" + oc + ":returned-false", "loadSettingsFile fails on a file written by saveSettingsFile");
      std::vector<Mis> d;
      checkParams(*f, fm, d);
      std::string ld = lpDiff(*f, fm, nullptr);
      if(!ld.empty()) d.push_back({"-", "lp", ld});
      std::set<std::string> keys;
      for(auto& x : d)
      {
         std::string key = "C15:reload:" + x.param + ":" + oc + ":" + (x.kind == "value" || x.kind == "seed" ? "mismatch" : x.kind == "lp" ? "lp-changed" : x.kind);
         if(keys.insert(key).second) viol(key, "after save + reload into a fresh object: " + x.detail);
      }
      // the property literally: bool/int exactly, reals to the printed precision
      for(int p = 0; p < T.nb; p++) if(f->boolParam((SoPlex::BoolParam)p) != (bool)m.b[p]) viol("C15:reload:" + T.bn[p] + ":" + oc + ":not-reproduced", "bool parameter not reproduced by save + reload");
      for(int p = 0; p < T.ni; p++) if(f->intParam((SoPlex::IntParam)p) != m.i[p]) viol("C15:reload:" + T.in[p] + ":" + oc + ":not-reproduced", "int parameter not reproduced by save + reload");
      for(int p = 0; p < T.nr; p++)
      {
         double a = f->realParam((SoPlex::RealParam)p), b = m.r[p];
         bool ok = a == b || std::fabs(a - b) <= 5.0000001e-9 * std::fabs(b);
         if(!ok) viol("C15:reload:" + T.rn[p] + ":" + oc + ":not-reproduced", "real parameter " + ds(b) + " came back as " + ds(a) + " (beyond the printed precision)");
      }
      if(f->randomSeed() != m.seed) viol("C15:reload:random_seed:" + oc + ":not-reproduced", "random seed not reproduced by save + reload");
      S.count("reload.checked");
   }
   // ---- resetSettings
   void reset(bool quiet, bool init)
   {
      note("resetSettings", "-", init ? "init" : "noinit", std::string("resetSettings(quiet=") + (quiet ? "true" : "false") + ", init=" + (init ? "true" : "false") + ")");
      Model old = m;
      Model def;
      def.rat = 0;
      m.b = def.b;
      m.i = def.i;
      m.r = def.r;
      m.seed = 0;            // documented default of uint:random_seed (saveSettingsFile: "default 0")
      m.rat = 0;             // default syncmode is only-real
      SoPlex* s = sp.get();
      Exec e = runProbed([ = ]() { s->resetSettings(quiet, init); return true; }, false);
      if(e.crashed || e.threw)
      {
         judgeSingle("resetSettings", "-", "-", true, e);
         return;
      }
      std::vector<Mis> d = diffAll();
      std::set<std::string> keys;
      for(auto& x : d)
      {
         std::string key = "C15:resetSettings:" + x.param + ":-:" + (x.kind == "value" || x.kind == "seed" ? "not-reset" : x.kind == "lp" ? "lp-changed" : x.kind);
         if(keys.insert(key).second) viol(key, "after resetSettings: " + x.detail);
      }
      if(d.size() == 1 && d[0].kind == "seed")
      {
         sp->setRandomSeed(m.seed);        // only the seed is out of step: re-synchronise without rebuilding the object
         sink().count("heal.seed_only");
         hist.push_back("<setRandomSeed(0) to re-synchronise with the model>");
      }
      else if(!d.empty()) heal();
   }
   // ---- setSettings
   void makeDonor()
   {
      if(!donor)
      {
         donor.reset(new SoPlex());
         silence(*donor);
         dm = Model();
      }
      int n = g.range(1, 6);
      for(int q = 0; q < n; q++)
      {
         int w = g.range(0, T.nb + T.ni + T.nr - 1);
         if(w < T.nb)
         {
            bool v = g.chance(0.5);
            if(predBool(dm, w, v)) donor->setBoolParam((SoPlex::BoolParam)w, v);
         }
         else if(w < T.nb + T.ni)
         {
            int p = w - T.nb, v = randomValidInt(g, p, dm.i[p]);
            if(predInt(dm, p, v)) donor->setIntParam((SoPlex::IntParam)p, v);
         }
         else
         {
            int p = w - T.nb - T.ni;
            double v = randomValidReal(g, p, dm.r[p]);
            if(predReal(dm, p, v)) donor->setRealParam((SoPlex::RealParam)p, v);
         }
      }
      std::vector<Mis> d;
      checkParams(*donor, dm, d);
      if(!d.empty())
      {
         // the donor only receives valid typed sets; a mismatch here is reported by the main object's monitors as well
         sink().count("donor.out_of_sync");
         donor.reset();
      }
   }
   void takeSnapshot()
   {
      note("settings()", "-", "-", "snapshot = settings()");
      snap.reset(new SoPlex::Settings(sp->settings()));
      snapm = m;
   }
   void setSettings(bool fromSnap, bool init)
   {
      const SoPlex::Settings* src = nullptr;
      Model sm;
      if(fromSnap && snap)
      {
         src = snap.get();
         sm = snapm;
      }
      else
      {
         makeDonor();
         if(!donor) return;
         src = &donor->settings();
         sm = dm;
         fromSnap = false;
      }
      std::string cls = init ? "init" : "noinit";
      bool o2a = init && m.i[SoPlex::SYNCMODE] == 0 && sm.i[SoPlex::SYNCMODE] == 1;
      if(o2a) cls = "onlyreal-to-auto";
      note("setSettings", o2a ? "syncmode" : "-", cls, std::string("setSettings(") + (fromSnap ? "earlier snapshot of settings()" : "settings() of another object") + ", init=" + (init ? "true" : "false") + ")" +
           (o2a ? " [syncmode only-real -> auto]" : ""));
      // model: all values as in the source; seed is not part of Settings
      int oldSync = m.i[SoPlex::SYNCMODE];
      m.b = sm.b;
      m.r = sm.r;
      for(int p = 0; p < T.ni; p++) if(p != SoPlex::SYNCMODE) m.i[p] = sm.i[p];
      m.i[SoPlex::SYNCMODE] = oldSync;
      predInt(m, SoPlex::SYNCMODE, sm.i[SoPlex::SYNCMODE]);
      SoPlex* s = sp.get();
      SoPlex::Settings copy(*src);
      Exec e = runProbed([ =, &copy]() { return s->setSettings(copy, init); }, o2a);
      if(e.crashed || e.threw)
      {
         judgeSingle("setSettings", o2a ? "syncmode" : "-", cls, true, e);
         return;
      }
      bool bad = false;
      if(!e.ret)
      {
         viol("C15:setSettings:-:-:returned-false", "setSettings returned false for the settings of a valid object");
         bad = true;
      }
      std::vector<Mis> d = diffAll();
      std::set<std::string> keys;
      for(auto& x : d)
      {
         std::string key = "C15:setSettings:" + x.param + ":" + cls + ":" + (x.kind == "value" ? "not-copied" : x.kind == "seed" ? "seed-changed" : x.kind == "lp" ? "lp-changed" : x.kind);
         // init=false: the values are stored first, so every setter sees "value unchanged" and returns early: one root cause
         if(!init && x.kind != "value" && x.kind != "seed") key = "C15:setSettings:-:noinit:not-applied";
         if(keys.insert(key).second) viol(key, "after setSettings: " + x.detail);
      }
      if(bad || !d.empty()) heal();
   }
   void loadLP()
   {
      if(hasLP || m.i[SoPlex::SYNCMODE] != 0) return;
      for(int t = 0; t < 5; t++)
      {
         Instance I = genFamily(g, g.chance(0.5) ? "arbitrary" : "planted-opt", 5, 5);
         if(!allExactDoubles(I.M)) continue;
         M = I.M;
         hasLP = true;
         break;
      }
      if(!hasLP) return;
      loadMode = g.range(0, 2);
      note("loadLP", "-", "-", "load a " + std::to_string(M.m) + "x" + std::to_string(M.n) + " LP through addCols/addRows (sets objsense, obj_offset)");
      loadLPInto(*sp, m, M, loadMode);
      std::vector<Mis> d = diffAll();
      for(auto& x : d) viol("C15:loadLP:" + x.param + ":-:" + x.kind, "after loading an LP: " + x.detail);
      if(!d.empty()) heal();
   }
};

// ------------------------------------------------------------------------------------------------ cases
static void maybeLoadLP(Ctx& c, double prob)
{
   if(c.g.chance(prob)) c.loadLP();
}
static void randomValidSet(Ctx& c)
{
   Rng& g = c.g;
   int w = g.range(0, T.nb + T.ni + T.nr - 1);
   bool init = g.chance(0.5);
   if(w < T.nb)
   {
      bool v = g.chance(0.5);
      c.setBool(w, v, init, v ? "true" : "false");
   }
   else if(w < T.nb + T.ni)
   {
      int p = w - T.nb;
      c.setInt(p, randomValidInt(g, p, c.m.i[p]), init, "valid");
   }
   else
   {
      int p = w - T.nb - T.ni;
      c.setReal(p, randomValidReal(g, p, c.m.r[p]), init, "valid");
   }
}
static std::vector<Line> noiseAround(Rng& g, const Line& l)
{
   std::vector<Line> v;
   int before = g.range(0, 2), after = g.range(0, 2);
   for(int q = 0; q < before; q++) v.push_back(commentLine(g));
   v.push_back(l);
   for(int q = 0; q < after; q++) v.push_back(commentLine(g));
   return v;
}
// front: 0 typed setter, 1 parseSettingsString, 2 loadSettingsFile
static void applyFront(Ctx& c, int front, const Line& l, bool init)
{
   if(front == 1) c.parse(l);
   else if(front == 2) c.loadFile(noiseAround(c.g, l), c.g.chance(0.8), false);
   else if(l.ptype == 'b') c.setBool(l.p, l.bv, init, l.cls);
   else if(l.ptype == 'i') c.setInt(l.p, l.iv, init, l.cls);
   else if(l.ptype == 'r') c.setReal(l.p, l.rv, init, l.cls);
   else c.setSeed((unsigned)l.uv, l.cls);
}
static void malformedBlock(Ctx& c, int front, char pt, const std::string& name, const std::string& vtext)
{
   for(int w = 0; w < NMALFORMED && !c.dead; w++)
   {
      Line l = malformedLine(w, pt, name, vtext);
      if(front == 1) c.parse(l);
      else c.loadFile(noiseAround(c.g, l), c.g.chance(0.8), false);
   }
}

static int numEnumCases()
{
   return 3 * (T.nb + T.ni + T.nr + 1);
}
// complete enumeration: (front end) x (parameter) x (value class), each class from several valid base values
static void enumCase(Ctx& c, long long k)
{
   Rng& g = c.g;
   Sink& S = sink();
   int front = (int)(k % 3), w = (int)(k / 3);
   S.count("enum.cases");
   maybeLoadLP(c, 0.5);
   int pre = g.range(0, 5);
   for(int q = 0; q < pre && !c.dead; q++) randomValidSet(c);
   int layoutCtr = g.range(0, NLAYOUT - 1);
   if(w < T.nb)
   {
      int p = w;
      for(int base = 0; base < 2 && !c.dead; base++)
      {
         if(front == 0)
         {
            for(int v = 0; v < 2; v++) for(int in = 0; in < 2 && !c.dead; in++) c.setBool(p, (base + v) % 2, in, (base + v) % 2 ? "true" : "false");
         }
         else
         {
            for(int sp_ = 0; sp_ < 6 && !c.dead; sp_++) for(int v = 0; v < 2 && !c.dead; v++) applyFront(c, front, boolLine(p, (base + v) % 2, sp_, layoutCtr++, front == 2), true);
            static const char* garbage[] = {"yes", "on", "no", "maybe", "x"};
            if(!c.dead) applyFront(c, front, badValueLine('b', p, "bool-garbage", garbage[g.range(0, 4)], layoutCtr++, front == 2), true);
            if(!c.dead) applyFront(c, front, badValueLine('b', p, "bool-number", g.chance(0.5) ? "2" : "3", layoutCtr++, front == 2), true);
         }
         if(!c.dead) c.setBool(p, !c.m.b[p], true, c.m.b[p] ? "false" : "true");
      }
      if(front != 0 && !c.dead) malformedBlock(c, front, 'b', T.bn[p], "true");
   }
   else if(w < T.nb + T.ni)
   {
      int p = w - T.nb;
      std::vector<int> bases;
      bases.push_back(INT_MIN);       // keep current
      if(!T.ienum[p].empty() || (long long)T.ihi[p] - T.ilo[p] <= 8)
      {
         for(int v = T.ilo[p]; v <= T.ihi[p]; v++) if(validInt(p, v)) bases.push_back(v);
      }
      else bases.push_back(randomValidInt(g, p, c.m.i[p]));
      for(int base : bases)
      {
         if(c.dead) break;
         if(base != INT_MIN) c.setInt(p, base, true, "valid");
         std::vector<IV> cl = intClasses(g, p, c.m.i[p]);
         // rejected classes first: each of them is then tried from the base value (atomicity is judged against it)
         std::stable_partition(cl.begin(), cl.end(), [&](const IV & x) { return x.cls != "same" && !validInt(p, x.v); });
         for(auto& x : cl)
         {
            if(c.dead) break;
            int v = x.cls == "same" ? c.m.i[p] : x.v;
            applyFront(c, front, intLine(p, x.cls, v, layoutCtr++, front == 2, g.chance(0.3)), g.chance(0.5));
         }
         if(front != 0)
         {
            if(!c.dead) applyFront(c, front, badValueLine('i', p, "int-overflow", g.chance(0.5) ? "99999999999" : "-99999999999", layoutCtr++, front == 2), true);
            if(!c.dead) applyFront(c, front, badValueLine('i', p, "int-garbage", g.chance(0.5) ? "abc" : "x1", layoutCtr++, front == 2), true);
         }
      }
      if(front != 0 && !c.dead) malformedBlock(c, front, 'i', T.in[p], "1");
   }
   else if(w < T.nb + T.ni + T.nr)
   {
      int p = w - T.nb - T.ni;
      for(int base = 0; base < 2 && !c.dead; base++)
      {
         if(base == 1) c.setReal(p, randomValidReal(g, p, c.m.r[p]), true, "valid");
         std::vector<RV> cl = realClasses(g, p, c.m.r[p]);
         std::stable_partition(cl.begin(), cl.end(), [&](const RV & x) { return x.cls != "same" && !validReal(p, x.v); });
         for(auto& x : cl)
         {
            if(c.dead) break;
            double v = x.cls == "same" ? c.m.r[p] : x.v;
            applyFront(c, front, realLine(p, x.cls, v, layoutCtr++, front == 2, g.range(0, 2)), g.chance(0.5));
         }
         if(front != 0)
         {
            if(!c.dead) applyFront(c, front, badValueLine('r', p, "real-overflow", g.chance(0.5) ? "1e999" : "-1e999", layoutCtr++, front == 2), true);
            if(!c.dead) applyFront(c, front, badValueLine('r', p, "real-garbage", g.chance(0.5) ? "abc" : "e5", layoutCtr++, front == 2), true);
         }
      }
      if(front != 0 && !c.dead) malformedBlock(c, front, 'r', T.rn[p], "0.5");
   }
   else
   {
      struct SC { const char* cls; unsigned long long v; };
      std::vector<SC> cl = {{"min", 0ULL}, {"valid", 1ULL}, {"valid", (unsigned long long)g.range(2, 1000000)}, {"max", (unsigned long long)UINT_MAX}, {"valid", 0x80000000ULL}, {"same", 0ULL}};
      for(int rep = 0; rep < 2 && !c.dead; rep++)
      {
         for(auto& x : cl)
         {
            if(c.dead) break;
            unsigned long long v = std::string(x.cls) == "same" ? c.m.seed : x.v;
            applyFront(c, front, seedLine(x.cls, v, layoutCtr++, front == 2), true);
         }
         if(front != 0)
         {
            if(!c.dead) applyFront(c, front, seedLine("above-max-converted", (unsigned long long)UINT_MAX + 1ULL + (unsigned long long)g.range(0, 1000), layoutCtr++, front == 2), true);
            if(!c.dead) applyFront(c, front, badValueLine('u', 0, "uint-garbage", "abc", layoutCtr++, front == 2), true);
            if(!c.dead) applyFront(c, front, badValueLine('u', 0, "uint-overflow", "99999999999999999999999", layoutCtr++, front == 2), true);
            Line l = seedLine("unknown-name", 5, layoutCtr++, front == 2);
            l.kind = 2;
            l.text = "uint:randomseed = 5";
            if(!c.dead) applyFront(c, front, l, true);
         }
         if(!c.dead) c.saveReload(rep == 0);
         if(!c.dead) c.reset(false, rep == 0);
      }
      if(front != 0 && !c.dead) malformedBlock(c, front, 'u', "random_seed", "7");
      if(front == 2 && !c.dead)
      {
         // file-level behaviour: missing file, overlong line (documented error, reading stops), long-but-legal line, no trailing newline
         c.loadFile({}, false, true);
         Line ok1 = intLine(SoPlex::ITERLIMIT, "valid", 17, 1, true), ok2 = intLine(SoPlex::DISPLAYFREQ, "valid", 33, 1, true);
         Line lng;
         lng.kind = 3;
         lng.cls = "overlong-line";
         lng.text = "# " + std::string(600, 'x');
         if(!c.dead) c.loadFile({ok1, lng, ok2}, true, false);
         Line lg2;
         lg2.kind = 1;
         lg2.cls = "comment";
         lg2.text = "# " + std::string(490, 'y');       // 492 characters: below the documented limit of 498
         Line ok3 = intLine(SoPlex::ITERLIMIT, "valid", 19, 0, true);
         if(!c.dead) c.loadFile({lg2, ok3}, false, false);
         if(!c.dead) c.loadFile({}, false, false);      // empty file
      }
   }
   if(!c.dead) c.saveReload(g.chance(0.5));
}

static Line randomLine(Ctx& c, bool forFile, double pSpecial)
{
   Rng& g = c.g;
   int L = g.range(0, NLAYOUT - 1);
   if(g.chance(0.08)) return commentLine(g);
   bool special = g.chance(pSpecial);
   int w = g.range(0, T.nb + T.ni + T.nr + 1);
   if(w < T.nb)
   {
      if(special && g.chance(0.3))
      {
         bool num = g.chance(0.5);
         return badValueLine('b', w, num ? "bool-number" : "bool-garbage", num ? "2" : "yes", L, forFile);
      }
      if(special && g.chance(0.3)) return malformedLine(g.range(0, NMALFORMED - 1), 'b', T.bn[w], "true");
      return boolLine(w, g.chance(0.5), g.range(0, 5), L, forFile);
   }
   if(w < T.nb + T.ni)
   {
      int p = w - T.nb;
      if(special)
      {
         if(g.chance(0.25)) return malformedLine(g.range(0, NMALFORMED - 1), 'i', T.in[p], "3");
         if(g.chance(0.15)) return badValueLine('i', p, g.chance(0.5) ? "int-garbage" : "int-overflow", g.chance(0.5) ? "abc" : "99999999999", L, forFile);
         std::vector<IV> cl = intClasses(g, p, c.m.i[p]);
         IV x = g.pick(cl);
         return intLine(p, x.cls, x.cls == "same" ? c.m.i[p] : x.v, L, forFile, g.chance(0.2));
      }
      return intLine(p, "valid", randomValidInt(g, p, c.m.i[p]), L, forFile, g.chance(0.2));
   }
   if(w < T.nb + T.ni + T.nr)
   {
      int p = w - T.nb - T.ni;
      if(special)
      {
         if(g.chance(0.25)) return malformedLine(g.range(0, NMALFORMED - 1), 'r', T.rn[p], "0.25");
         if(g.chance(0.15)) return badValueLine('r', p, g.chance(0.5) ? "real-garbage" : "real-overflow", g.chance(0.5) ? "abc" : "1e999", L, forFile);
         std::vector<RV> cl = realClasses(g, p, c.m.r[p]);
         RV x = g.pick(cl);
         return realLine(p, x.cls, x.cls == "same" ? c.m.r[p] : x.v, L, forFile, g.range(0, 2));
      }
      return realLine(p, "valid", randomValidReal(g, p, c.m.r[p]), L, forFile, g.range(0, 2));
   }
   return seedLine("valid", (unsigned long long)g.range(0, 100000), L, forFile);
}

static void historyCase(Ctx& c, bool bulkHeavy)
{
   Rng& g = c.g;
   Sink& S = sink();
   S.count(bulkHeavy ? "history.bulk_cases" : "history.cases");
   maybeLoadLP(c, 0.6);
   int len = 40;
   for(int step = 0; step < len && !c.dead; step++)
   {
      int r = g.range(0, 99);
      if(bulkHeavy) r = r < 40 ? r : 60 + (r % 40);
      if(r < 30)
      {
         if(g.chance(0.8)) randomValidSet(c);
         else
         {
            int w = g.range(0, T.ni + T.nr - 1);
            bool init = g.chance(0.5);
            if(w < T.ni)
            {
               std::vector<IV> cl = intClasses(g, w, c.m.i[w]);
               IV x = g.pick(cl);
               c.setInt(w, x.cls == "same" ? c.m.i[w] : x.v, init, x.cls);
            }
            else
            {
               int p = w - T.ni;
               std::vector<RV> cl = realClasses(g, p, c.m.r[p]);
               RV x = g.pick(cl);
               c.setReal(p, x.cls == "same" ? c.m.r[p] : x.v, init, x.cls);
            }
         }
      }
      else if(r < 35) c.setSeed(g.chance(0.2) ? 0u : (unsigned)g.next(), "valid");
      else if(r < 52) c.parse(randomLine(c, false, 0.2));
      else if(r < 64)
      {
         int n = g.range(1, 6);
         std::vector<Line> ls;
         bool haveSpecial = false;
         for(int q = 0; q < n; q++)
         {
            Line l = randomLine(c, true, haveSpecial ? 0.0 : 0.12);
            if(l.kind != 1 && l.cls != "valid" && l.cls != "true" && l.cls != "false") haveSpecial = true;
            ls.push_back(l);
         }
         // a special (non-valid) line is the only line of the file that names its parameter: violations are then attributed unambiguously
         for(size_t a = 0; a < ls.size(); a++)
         {
            const Line& sl = ls[a];
            if(sl.kind != 0 || sl.cls == "valid" || sl.cls == "true" || sl.cls == "false") continue;
            std::string nm = sl.pname;
            std::vector<Line> keep;
            for(size_t b = 0; b < ls.size(); b++) if(b == a || ls[b].kind != 0 || ls[b].pname != nm) keep.push_back(ls[b]);
            ls.swap(keep);
            break;
         }
         c.loadFile(ls, g.chance(0.8), false);
      }
      else if(r < 73) c.saveReload(g.chance(0.5));
      else if(r < 79) c.reset(g.chance(0.5), g.chance(0.7));
      else if(r < 88) c.setSettings(g.chance(0.4), g.chance(0.8));
      else if(r < 93) c.takeSnapshot();
      else if(r < 96) c.loadLP();
      else randomValidSet(c);
   }
}

// ------------------------------------------------------------------------------------------------ "what is set is what is used"
// set one parameter through a random front end on a fresh object (no probe, no model: the effect is judged by behaviour)
static bool setVia(SoPlex& s, Rng& g, const Line& l, std::string& how)
{
   int front = g.range(0, 2);
   try
   {
      if(front == 0)
      {
         how = "typed setter";
         if(l.ptype == 'i') return s.setIntParam((SoPlex::IntParam)l.p, l.iv);
         if(l.ptype == 'r') return s.setRealParam((SoPlex::RealParam)l.p, l.rv);
         return s.setBoolParam((SoPlex::BoolParam)l.p, l.bv);
      }
      if(front == 1)
      {
         how = "parseSettingsString";
         std::vector<char> buf(l.text.begin(), l.text.end());
         buf.push_back('\0');
         return s.parseSettingsString(buf.data());
      }
      how = "loadSettingsFile";
      std::string path = cli.tmpdir + "/c15b_" + std::to_string((long)getpid()) + ".set";
      {
         std::ofstream f(path);
         f << "# behaviour probe\n" << l.text << "\n";
      }
      bool r = s.loadSettingsFile(path.c_str());
      unlink(path.c_str());
      return r;
   }
   catch(...)
   {
      return false;
   }
}
static LPModel boxedLP(Rng& g)
{
   LPModel M;
   M.n = g.range(2, 5);
   M.m = g.range(1, 4);
   M.A.assign(M.m, std::vector<Q>(M.n, Q(0)));
   for(int i = 0; i < M.m; i++)
   {
      for(int j = 0; j < M.n; j++) if(g.chance(0.7)) M.A[i][j] = g.range(1, 5);
      M.lhs.push_back(NINF());
      M.rhs.push_back(Q(g.range(5, 20)));
   }
   for(int j = 0; j < M.n; j++)
   {
      M.lo.push_back(Q(0));
      M.up.push_back(Q(g.range(1, 10)));
      int cj = g.range(1, 9);
      M.obj.push_back(Q(g.chance(0.5) ? cj : -cj));
   }
   M.sense = 1;
   M.offset = 0;
   M.family = "boxed";
   return M;
}
static void behaviourCase(long long k, Rng& g)
{
   Sink& S = sink();
   S.count("behaviour.cases");
   int which = (int)((k / 8) % 5);
   std::string how;
   if(which == 0)
   {
      // ITERLIMIT = j really limits the number of iterations
      Instance I = genFamily(g, "planted-opt", 8, 8);
      if(!allExactDoubles(I.M)) { S.count("behaviour.skipped"); return; }
      SoPlex a;
      silence(a);
      a.setIntParam(SoPlex::SIMPLIFIER, SoPlex::SIMPLIFIER_OFF);
      loadReal(a, I.M, 0);
      a.optimize();
      int N = a.numIterations();
      if(a.status() != SPX::OPTIMAL || N < 2) { S.count("behaviour.iterlimit_trivial"); return; }
      int j = g.range(0, N - 1);
      SoPlex b;
      silence(b);
      b.setIntParam(SoPlex::SIMPLIFIER, SoPlex::SIMPLIFIER_OFF);
      bool ok = setVia(b, g, intLine(SoPlex::ITERLIMIT, "valid", j, g.range(0, NLAYOUT - 1), true), how);
      loadReal(b, I.M, 0);
      b.optimize();
      S.count("behaviour.iterlimit_checked");
      S.seen("nontrivial", fnv("iterlimit" + how) ^ I.M.signature());
      if(!ok || b.intParam(SoPlex::ITERLIMIT) != j) sink().viol("C15:behaviour:iterlimit:valid:not-set", "iterlimit = " + std::to_string(j) + " via " + how + " was not accepted");
      else if(b.numIterations() > j)
         sink().viol("C15:behaviour:iterlimit:valid:not-used", "iterlimit = " + std::to_string(j) + " (set via " + how + ") but the solve performed " + std::to_string(b.numIterations()) +
                     " iterations (unlimited solve: " + std::to_string(N) + "), status " + statusName((int)b.status()), Json().str("lp_text", I.M.toLPText()).num("iterlimit", j).done());
      else if(b.status() == SPX::OPTIMAL && b.numIterations() < N) S.count("behaviour.iterlimit_optimal_earlier");
      else if(b.status() == SPX::ABORT_ITER) S.count("behaviour.iterlimit_abort_iter");
   }
   else if(which == 1)
   {
      // OBJSENSE flips the optimum
      LPModel M = boxedLP(g);
      LPModel Mn = M;
      Mn.sense = -1;
      Truth tx = computeTruth(M, true), tn = computeTruth(Mn, true);
      if(!(tx.known && tn.known && tx.status == REF_OPTIMAL && tn.status == REF_OPTIMAL && tx.robust && tn.robust)) { S.count("behaviour.skipped"); return; }
      double val[2];
      for(int sgn = 0; sgn < 2; sgn++)
      {
         int sense = sgn == 0 ? 1 : -1;
         SoPlex s;
         silence(s);
         loadReal(s, M, g.range(0, 2));                                  // loads as "maximize"
         bool ok = setVia(s, g, intLine(SoPlex::OBJSENSE, "valid", sense, g.range(0, NLAYOUT - 1), true), how);
         s.optimize();
         double truth = dq(sense > 0 ? tx.objval : tn.objval);
         val[sgn] = s.objValueReal();
         S.count("behaviour.objsense_checked");
         S.seen("nontrivial", fnv("objsense" + how + std::to_string(sense)) ^ M.signature());
         if(!ok || s.status() != SPX::OPTIMAL || std::fabs(val[sgn] - truth) > 1e-6 * (1 + std::fabs(truth)))
            sink().viol("C15:behaviour:objsense:valid:not-used", "objsense = " + std::to_string(sense) + " (set via " + how + "): status " + statusName((int)s.status()) + ", objective " + ds(val[sgn]) +
                        ", certified optimum for this sense " + ds(truth), Json().str("lp_text", M.toLPText()).done());
      }
      if(dq(tx.objval) > dq(tn.objval) + 1e-3) S.count("behaviour.objsense_distinct_optima");
   }
   else if(which == 2)
   {
      // VERBOSITY 0 prints nothing; VERBOSITY >= 3 prints the solve log
      Instance I = genFamily(g, "planted-opt", 6, 6);
      if(!allExactDoubles(I.M)) { S.count("behaviour.skipped"); return; }
      for(int level : {0, 3 + g.range(0, 2)})
      {
         SoPlex s;
         CountingBuf buf;
         std::ostream os(&buf);
         for(int v = 0; v <= 5; v++) s.spxout.setStream((SPxOut::Verbosity)v, os);
         bool ok = setVia(s, g, intLine(SoPlex::VERBOSITY, "valid", level, g.range(0, NLAYOUT - 1), true), how);
         // messages of the front end itself (e.g. "Loading settings file") were printed at the OLD verbosity: discard
         buf.lines = 0;
         buf.cur.clear();
         buf.all.clear();
         loadReal(s, I.M, 0);
         s.optimize();
         long out = buf.lines + (long)buf.cur.size();
         S.count("behaviour.verbosity_checked");
         S.seen("nontrivial", fnv("verbosity" + how + std::to_string(level)) ^ I.M.signature());
         if(!ok) sink().viol("C15:behaviour:verbosity:valid:not-set", "verbosity = " + std::to_string(level) + " via " + how + " was not accepted");
         else if(level == 0 && out != 0) sink().viol("C15:behaviour:verbosity:valid:not-used", "verbosity = 0 (set via " + how + ") but the solve printed: " + buf.all.substr(0, 200) + buf.cur);
         else if(level >= 3 && out == 0) sink().viol("C15:behaviour:verbosity:valid:not-used", "verbosity = " + std::to_string(level) + " (set via " + how + ") but the solve printed nothing");
      }
   }
   else if(which == 3)
   {
      // a changed FEASTOL / OPTTOL is visible in tolerances(), before and after a solve
      Instance I = genFamily(g, "planted-opt", 6, 6);
      if(!allExactDoubles(I.M)) { S.count("behaviour.skipped"); return; }
      bool feas = g.chance(0.5);
      double v = std::pow(10.0, -(double)g.range(3, 9));
      SoPlex s;
      silence(s);
      bool ok = setVia(s, g, realLine(feas ? SoPlex::FEASTOL : SoPlex::OPTTOL, "valid", v, g.range(0, NLAYOUT - 1), true, 0), how);
      double before = feas ? s.tolerances()->feastol() : s.tolerances()->opttol();
      loadReal(s, I.M, 0);
      s.optimize();
      double after = feas ? s.tolerances()->feastol() : s.tolerances()->opttol();
      S.count("behaviour.tolerance_checked");
      S.seen("nontrivial", fnv("tol" + how + ds(v)) ^ I.M.signature());
      if(!ok || before != v || after != v)
         sink().viol(std::string("C15:behaviour:") + (feas ? "feastol" : "opttol") + ":valid:not-used", std::string(feas ? "feastol" : "opttol") + " = " + ds(v) + " (set via " + how + "): tolerances() shows " + ds(before) +
                     " before and " + ds(after) + " after a solve");
   }
   else
   {
      // OBJ_OFFSET shifts the objective value
      LPModel M = boxedLP(g);
      double d = (double)g.range(-50, 50);
      double obj[2];
      bool okAll = true;
      for(int w = 0; w < 2; w++)
      {
         SoPlex s;
         silence(s);
         loadReal(s, M, 0);
         if(w == 1) okAll = setVia(s, g, realLine(SoPlex::OBJ_OFFSET, "valid", d, g.range(0, NLAYOUT - 1), true, 0), how);
         s.optimize();
         if(s.status() != SPX::OPTIMAL) { S.count("behaviour.skipped"); return; }
         obj[w] = s.objValueReal();
      }
      S.count("behaviour.offset_checked");
      S.seen("nontrivial", fnv("offset" + how + ds(d)) ^ M.signature());
      if(!okAll || std::fabs(obj[1] - obj[0] - d) > 1e-7 * (1 + std::fabs(obj[0]) + std::fabs(d)))
         sink().viol("C15:behaviour:obj_offset:valid:not-used", "obj_offset = " + ds(d) + " (set via " + how + ") but the optimal value moved from " + ds(obj[0]) + " to " + ds(obj[1]), Json().str("lp_text", M.toLPText()).done());
   }
}

static void runCase(long long k, Rng& g)
{
   Sink& S = sink();
   int E = numEnumCases();
   std::string desc;
   int kind;      // 0 enumeration, 1 history, 2 bulk-heavy history, 3 behaviour
   if(k < E)
   {
      kind = 0;
      int front = (int)(k % 3), w = (int)(k / 3);
      std::string pn = w < T.nb ? "bool:" + T.bn[w] : w < T.nb + T.ni ? "int:" + T.in[w - T.nb] : w < T.nb + T.ni + T.nr ? "real:" + T.rn[w - T.nb - T.ni] : "uint:random_seed";
      desc = std::string("enumerate ") + (front == 0 ? "typed" : front == 1 ? "parseSettingsString" : "loadSettingsFile") + " x " + pn;
   }
   else
   {
      long long r = (k - E) % 8;
      kind = r == 6 ? 3 : r == 7 ? 2 : 1;
      desc = kind == 3 ? "behaviour" : kind == 2 ? "history (bulk operations)" : "history";
   }
   S.begin(k, desc);
   S.count("cases");
   checkTablesAgainstDocs();
   if(kind == 3)
   {
      try
      {
         behaviourCase(k - E, g);
      }
      catch(const std::exception& x)
      {
         S.viol("C15:exception:behaviour:-:" + excName(x), "exception escaped during a behaviour probe");
      }
      S.end(k);
      return;
   }
   Ctx c(g, k);
   {
      // a freshly constructed object shows the documented defaults
      std::vector<Mis> d = c.diffAll();
      for(auto& x : d) S.viol("C15:construct:" + x.param + ":-:" + (x.kind == "value" ? "not-default" : x.kind), "freshly constructed object: " + x.detail);
      if(!d.empty())
      {
         S.end(k);
         return;
      }
   }
   if(kind == 0) enumCase(c, k);
   else historyCase(c, kind == 2);
   if(c.dead) S.count("cases.abandoned_after_failed_heal");
   if(c.nops > 0) S.seen("nontrivial", c.shape);
   S.maxi("history.max_ops", (double)c.nops);
   if(k < 3 || k == E) S.sample(Json().str("case", desc).num("operations", c.nops).num("rebuilds_after_violation", c.nviolOps).str("last_op", c.hist.empty() ? "" : c.hist.back()).done());
   S.end(k);
}

int main(int argc, char** argv)
{
   cli.parse(argc, argv);
   verbose = cli.extra.count("verbose") > 0;
   if(cli.extra.count("probe")) probeAll = cli.extra["probe"] != "risky";
   Sink& S = sink();
   S.prop = cli.prop;
   if(cli.prop != "C15")
   {
      fprintf(stderr, "h_param: unknown property %s\n", cli.prop.c_str());
      return 2;
   }
   loadTables();
   for(long long k = cli.from; k < cli.to; k++)
   {
      Rng g(fnv(cli.prop), cli.seed, (uint64_t)k);
      runCase(k, g);
   }
   S.finish();
   return 0;
}
