// harness/c13_common.hpp -- shared by h_read.cpp (g++ asan/opt) and fz_read.cpp (clang libFuzzer): the seven reader entry points
// of property C13, the fixed post-read sequence, the CPU-time watchdog, seed files.  Included by exactly one TU per binary.
#pragma once
#include "sx.hpp"
#include <zlib.h>
#include <signal.h>
#include <sys/time.h>
#include <sys/stat.h>
#include <sys/types.h>
#include <dirent.h>
#include <unistd.h>
#include <fcntl.h>
#include <execinfo.h>
#include <dlfcn.h>
#include <cxxabi.h>
#include <typeinfo>
#include <elf.h>
#include <sys/mman.h>

namespace c13
{
using namespace vl;
using soplex::SoPlex;
using soplex::NameSet;
using soplex::DIdxSet;

enum Entry { LP_REAL = 0, LP_RAT, MPS_REAL, MPS_RAT, BASIS, SET_FILE, SET_STR, NENTRY };
static const char* const entryName[NENTRY] = {"lp-real", "lp-rational", "mps-real", "mps-rational", "basis", "settings-file", "settings-string"};
// variant bits
enum { V_NAMES = 1, V_SYNCAUTO = 2, V_GZ = 4, V_PRELOAD = 8, V_ZLIB = 16 };

// ---------------------------------------------------------------- reporting hooks (set by the including TU)
struct Hooks
{
   std::function<void(const std::string&, const std::string&)> viol;   // key, detail
   std::function<void(const std::string&)> count;
   std::function<void(const std::string&, double)> maxi;
};
static Hooks H;
static inline void cnt(const std::string& n)
{
   if(H.count) H.count(n);
}

// ---------------------------------------------------------------- small helpers
static inline std::string b64(const std::string& s)
{
   static const char* T = "ABCDEFGHIJKLMNOPQRSTUVWXYZabcdefghijklmnopqrstuvwxyz0123456789+/";
   std::string o;
   size_t i = 0;
   for(; i + 2 < s.size(); i += 3)
   {
      unsigned v = ((unsigned char)s[i] << 16) | ((unsigned char)s[i + 1] << 8) | (unsigned char)s[i + 2];
      o += T[v >> 18];
      o += T[(v >> 12) & 63];
      o += T[(v >> 6) & 63];
      o += T[v & 63];
   }
   if(i + 1 == s.size())
   {
      unsigned v = (unsigned char)s[i] << 16;
      o += T[v >> 18];
      o += T[(v >> 12) & 63];
      o += "==";
   }
   else if(i + 2 == s.size())
   {
      unsigned v = ((unsigned char)s[i] << 16) | ((unsigned char)s[i + 1] << 8);
      o += T[v >> 18];
      o += T[(v >> 12) & 63];
      o += T[(v >> 6) & 63];
      o += "=";
   }
   return o;
}
static inline bool readWhole(const std::string& path, std::string& out)
{
   FILE* f = fopen(path.c_str(), "rb");
   if(!f) return false;
   out.clear();
   char buf[65536];
   size_t n;
   while((n = fread(buf, 1, sizeof buf, f)) > 0) out.append(buf, n);
   fclose(f);
   return true;
}
static inline bool writeWhole(const std::string& path, const std::string& data)
{
   FILE* f = fopen(path.c_str(), "wb");
   if(!f) return false;
   size_t w = data.empty() ? 0 : fwrite(data.data(), 1, data.size(), f);
   fclose(f);
   return w == data.size();
}
static inline std::string gzipBytes(const std::string& in, bool zlibFormat = false)
{
   z_stream zs;
   memset(&zs, 0, sizeof zs);
   if(deflateInit2(&zs, 6, Z_DEFLATED, zlibFormat ? 15 : 15 + 16, 8, Z_DEFAULT_STRATEGY) != Z_OK) return std::string();
   std::string out(deflateBound(&zs, in.size()) + 64, '\0');
   zs.next_in = (Bytef*)in.data();
   zs.avail_in = (uInt)in.size();
   zs.next_out = (Bytef*)&out[0];
   zs.avail_out = (uInt)out.size();
   deflate(&zs, Z_FINISH);
   out.resize(zs.total_out);
   deflateEnd(&zs);
   return out;
}
static inline std::string cleanFn(const std::string& fn)
{
   std::string out;
   int depth = 0;
   for(char ch : fn)
   {
      if(ch == '<' || ch == '(') depth++;
      else if(ch == '>' || ch == ')') depth--;
      else if(depth == 0) out += ch;
   }
   size_t p;
   while((p = out.find("soplex::")) != std::string::npos) out.erase(p, 8);
   while(!out.empty() && out.back() == ' ') out.pop_back();
   if(out.size() > 6 && out.compare(out.size() - 6, 6, " const") == 0) out.erase(out.size() - 6);
   p = out.rfind(' ');
   if(p != std::string::npos) out = out.substr(p + 1);
   return out;
}
static inline std::string demangle(const char* n)
{
   int st = 0;
   char* d = abi::__cxa_demangle(n, nullptr, nullptr, &st);
   std::string r = (st == 0 && d) ? d : n;
   free(d);
   return r;
}
enum Phase { PH_IDLE = 0, PH_READ, PH_POST };
static volatile int g_phase = PH_IDLE;
static volatile int g_entry = 0;

// ---------------------------------------------------------------- own symbolizer over the binary's .symtab
// (dladdr only knows exported symbols and would mis-attribute static reader helpers; the sanitizer's libbacktrace gives no file
// paths for code of the explicit-instantiation object at -g1, so the driver's crash key would lose those frames)
struct SymTab
{
   struct Sym
   {
      uint64_t a, sz;
      const char* nm;
   };
   std::vector<Sym> v;
   uint64_t base = 0;
   bool loaded = false;
   static void anchor() {}
   void load()
   {
      if(loaded) return;
      loaded = true;
      int fd = open("/proc/self/exe", O_RDONLY);
      if(fd < 0) return;
      struct stat st;
      if(fstat(fd, &st) != 0)
      {
         close(fd);
         return;
      }
      const char* f = (const char*)mmap(nullptr, (size_t)st.st_size, PROT_READ, MAP_PRIVATE, fd, 0);
      close(fd);
      if(f == (const char*)MAP_FAILED) return;
      const Elf64_Ehdr* eh = (const Elf64_Ehdr*)f;
      if(memcmp(eh->e_ident, ELFMAG, SELFMAG) != 0 || eh->e_ident[EI_CLASS] != ELFCLASS64) return;
      const Elf64_Shdr* sh = (const Elf64_Shdr*)(f + eh->e_shoff);
      for(int i = 0; i < eh->e_shnum; i++)
      {
         if(sh[i].sh_type != SHT_SYMTAB) continue;
         const Elf64_Sym* sy = (const Elf64_Sym*)(f + sh[i].sh_offset);
         size_t n = sh[i].sh_size / sizeof(Elf64_Sym);
         const char* str = f + sh[sh[i].sh_link].sh_offset;
         for(size_t k = 0; k < n; k++)
            if(ELF64_ST_TYPE(sy[k].st_info) == STT_FUNC && sy[k].st_value != 0) v.push_back(Sym{sy[k].st_value, sy[k].st_size, str + sy[k].st_name});
      }
      std::sort(v.begin(), v.end(), [](const Sym & x, const Sym & y)
      {
         return x.a < y.a;
      });
      if(eh->e_type == ET_DYN)
      {
         Dl_info di;
         if(dladdr((void*)&SymTab::anchor, &di)) base = (uint64_t)di.dli_fbase;
      }
      // the mapping stays (names point into it)
   }
   std::string find(const void* pc)
   {
      load();
      uint64_t off = (uint64_t)pc - base;
      size_t lo = 0, hi = v.size();
      while(lo < hi)
      {
         size_t mid = (lo + hi) / 2;
         if(v[mid].a <= off) lo = mid + 1;
         else hi = mid;
      }
      if(lo == 0) return "";
      const Sym& s = v[lo - 1];
      if(off >= s.a + std::max<uint64_t>(s.sz, 1)) return "";
      std::string raw = s.nm;
      size_t dot = raw.find('.');                 // gcc clones: _Zfoo.cold, .part.0, .constprop.0
      if(dot != std::string::npos && raw.compare(0, 2, "_Z") == 0) raw = raw.substr(0, dot);
      return demangle(raw.c_str());
   }
};
static SymTab g_symtab;

// SoPlex / zstr functions on the current stack, innermost first, cleaned ("SPxLPBase::readLPF"); at most `want` distinct ones
static inline std::vector<std::pair<void*, std::string>> soplexFrames(int want)
{
   std::vector<std::pair<void*, std::string>> out;
   void* bt[96];
   int n = backtrace(bt, 96);
   for(int i = 0; i < n && (int)out.size() < want; i++)
   {
      std::string d = g_symtab.find((const char*)bt[i] - 1);
      if(d.empty()) continue;
      if(d.find("c13::") != std::string::npos) continue;
      if(d.find("soplex::") == std::string::npos && d.find("zstr::") == std::string::npos && d.find("strict_fstream") == std::string::npos) continue;
      std::string c = cleanFn(d);
      bool dup = false;
      for(auto& o : out) if(o.second == c) dup = true;
      if(!dup && !c.empty()) out.emplace_back(bt[i], c);
   }
   return out;
}
static inline std::string topSoplexFrame()
{
   auto f = soplexFrames(1);
   return f.empty() ? "unknown" : f[0].second;
}
// printed ahead of a sanitizer report, in the report's own frame syntax, so that the driver's crash key names the call site
static inline void printSyntheticFrames()
{
   auto f = soplexFrames(2);
   char buf[512];
   for(size_t i = 0; i < f.size(); i++)
   {
      // the innermost frame carries the entry point ("mps-rational@NameSet::add"): real and rational readers are separate code
      std::string nm = (i == 0 && g_phase != PH_IDLE ? std::string(entryName[g_entry]) + "@" : std::string()) + f[i].second;
      int n = snprintf(buf, sizeof buf, "    #%zu 0x%llx in %s /repo/src/soplex/[c13-symtab]\n", i, (unsigned long long)(uintptr_t)f[i].first, nm.c_str());
      if(n > 0) (void)!write(2, buf, (size_t)std::min<int>(n, (int)sizeof buf - 1));
   }
}

struct CapBuf : public std::streambuf
{
   std::string s;
   int overflow(int c) override
   {
      if(c != EOF && s.size() < 4096) s += (char)c;
      return c;
   }
   std::streamsize xsputn(const char* p, std::streamsize n) override
   {
      if(s.size() < 4096) s.append(p, (size_t)std::min<std::streamsize>(n, 4096));
      return n;
   }
};
struct CerrGuard       // the readers print to std::cerr unconditionally; capture (bounded) instead
{
   std::streambuf* old;
   CapBuf cap;
   CerrGuard()
   {
      old = std::cerr.rdbuf(&cap);
   }
   ~CerrGuard()
   {
      std::cerr.rdbuf(old);
   }
};
static CapBuf g_nullbuf;
static std::ostream g_nullos(&g_nullbuf);
static inline void silence(SoPlex& sp)
{
   for(int v = 0; v <= 5; v++) sp.spxout.setStream((soplex::SPxOut::Verbosity)v, g_nullos);
   sp.setIntParam(SoPlex::VERBOSITY, 0, true);
   g_nullbuf.s.clear();
}

// ---------------------------------------------------------------- CPU-time watchdog
static double g_timeScale = 1.0;
static void (*g_onTimeout)() = nullptr;
static void timerHandler(int)
{
   if(g_onTimeout) g_onTimeout();
   _exit(99);
}
static inline void installTimer()
{
   struct sigaction sa;
   memset(&sa, 0, sizeof sa);
   sa.sa_handler = timerHandler;
   sigemptyset(&sa.sa_mask);
   sigaction(SIGPROF, &sa, nullptr);
   sigset_t ss;
   sigemptyset(&ss);
   sigaddset(&ss, SIGPROF);
   sigprocmask(SIG_UNBLOCK, &ss, nullptr);    // an exec from inside the handler inherits a blocked SIGPROF
}
static inline void armTimer(double cpuSeconds)
{
   cpuSeconds *= g_timeScale;
   struct itimerval it;
   memset(&it, 0, sizeof it);
   it.it_value.tv_sec = (long)cpuSeconds;
   it.it_value.tv_usec = (long)((cpuSeconds - (long)cpuSeconds) * 1e6);
   setitimer(ITIMER_PROF, &it, nullptr);
}
static inline void disarmTimer()
{
   struct itimerval it;
   memset(&it, 0, sizeof it);
   setitimer(ITIMER_PROF, &it, nullptr);
}
static inline double cpuNow()
{
   struct timespec ts;
   clock_gettime(CLOCK_PROCESS_CPUTIME_ID, &ts);
   return ts.tv_sec + ts.tv_nsec * 1e-9;
}

// ---------------------------------------------------------------- context: good LP, base LP for the basis reader, seeds
struct Ctx
{
   std::string tmpdir, tag;
   LPModel good;
   double goodOpt = 0;
   std::string baseMpsPath;       // the good LP written by SoPlex (default names), read back with name sets for the basis entry
   bool ready = false;
};
static Ctx C;

static inline std::string tmpPath(const std::string& name)
{
   return C.tmpdir + "/c13_" + C.tag + "_" + name;
}

static inline void initCtx(const std::string& tmpdir)
{
   C.tmpdir = tmpdir;
   C.tag = std::to_string((long)getpid());
   mkdir(tmpdir.c_str(), 0777);
   // fixed small LP with a planted (exactly certified) optimum
   for(uint64_t t = 0; t < 50 && !C.ready; t++)
   {
      Rng g(fnv("C13good"), 7, t);
      Instance I = genFamily(g, "planted-opt", 5, 6);
      if(I.M.m < 3 || I.M.n < 3 || !allExactDoubles(I.M)) continue;
      ensureTruth(I);
      if(!I.T.known || I.T.status != REF_OPTIMAL) continue;
      bool freeRow = false;
      for(int i = 0; i < I.M.m; i++) if(isNInf(I.M.lhs[i]) && isPInf(I.M.rhs[i])) freeRow = true;
      if(freeRow) continue;       // the MPS writer cannot express free rows
      C.good = I.M;
      C.goodOpt = dq(I.T.objval);
      C.ready = true;
   }
   if(!C.ready)
   {
      fprintf(stderr, "c13: cannot build the reference LP\n");
      exit(2);
   }
   SoPlex sp;
   silence(sp);
   loadReal(sp, C.good);
   C.baseMpsPath = tmpPath("base.mps");
   sp.writeFileReal(C.baseMpsPath.c_str());
}

// ---------------------------------------------------------------- post-read monitors
struct CaseIn
{
   int entry = 0;
   unsigned variant = 0;
   std::string bytes;
   std::string faultKey;      // if set, an escaping exception is keyed "<faultKey>:<type>" (fault-injection runs)
};
struct CaseOut
{
   bool threw = false, ok = false, nontrivial = false;
   std::string extype, exwhat;
   double readCpu = 0;
};

// SPxLPBase::read() sends a stream starting with '*' or 'N' to the MPS reader, everything else to the LP reader
static inline int effectiveEntry(const CaseIn& in)
{
   if(in.entry > MPS_RAT) return in.entry;
   if(in.bytes.size() >= 2 && (unsigned char)in.bytes[0] == 0x1f && (unsigned char)in.bytes[1] == 0x8b) return in.entry;     // raw gzip data: first decoded byte unknown
   bool mps = !in.bytes.empty() && (in.bytes[0] == '*' || in.bytes[0] == 'N');
   return (mps ? MPS_REAL : LP_REAL) + (in.entry & 1);
}

static inline std::string stName(SoPlex& sp)
{
   return statusName((int)sp.status());
}

static int g_nonfinite = 0;
static inline void noteNonFinite(double v)
{
   if(std::isnan(v) || std::isinf(v)) g_nonfinite++;
}
static inline void noteNonFinite(const soplex::Rational&) {}
template <class SV> static void collect(const SV& v, int major, bool rowwise, int other, std::vector<std::tuple<int, int, std::string>>& out, bool& bad)
{
   for(int k = 0; k < v.size(); k++)
   {
      int idx = v.index(k);
      if(idx < 0 || idx >= other) bad = true;
      noteNonFinite(v.value(k));
      std::ostringstream o;
      o << std::setprecision(17) << v.value(k);
      out.emplace_back(rowwise ? major : idx, rowwise ? idx : major, o.str());
   }
}

// row-wise and column-wise storage must mirror each other (through the public accessors)
// returns false if the LP is not well-formed (a violation has been reported)
static inline bool mirrorCheck(SoPlex& sp, int entry, const char* when, bool rational)
{
   std::string e = entryName[entry];
   int m = rational ? sp.numRowsRational() : sp.numRows(), n = rational ? sp.numColsRational() : sp.numCols();
   std::vector<std::tuple<int, int, std::string>> R, Cc;
   bool bad = false;
   g_nonfinite = 0;
   for(int i = 0; i < m; i++)
   {
      if(rational) collect(sp.rowVectorRational(i), i, true, n, R, bad);
      else collect(sp.rowVectorRealInternal(i), i, true, n, R, bad);
   }
   for(int j = 0; j < n; j++)
   {
      if(rational) collect(sp.colVectorRational(j), j, false, m, Cc, bad);
      else collect(sp.colVectorRealInternal(j), j, false, m, Cc, bad);
   }
   cnt(std::string("post.mirror_checked.") + when);
   std::string sfx = std::string(rational ? "rational-" : "") + when;
   if(bad)
   {
      H.viol("C13:" + e + ":mirror:index-out-of-range:" + sfx, "a row/column vector holds an index outside the LP dimensions " + std::to_string(m) + "x" + std::to_string(n));
      return false;
   }
   int nnz = rational ? sp.numNonzerosRational() : sp.numNonzeros();
   if((int)R.size() != (int)Cc.size() || nnz != (int)R.size())
   {
      H.viol("C13:" + e + ":mirror:nnz:" + sfx, "row-wise nnz " + std::to_string(R.size()) + ", column-wise nnz " + std::to_string(Cc.size()) + ", numNonzeros() " + std::to_string(nnz));
      return false;
   }
   std::sort(R.begin(), R.end());
   std::sort(Cc.begin(), Cc.end());
   int dup = 0;
   for(size_t k = 0; k < R.size(); k++)
   {
      if(R[k] != Cc[k])
      {
         H.viol("C13:" + e + ":mirror:coefficient:" + sfx, "entry (" + std::to_string(std::get<0>(R[k])) + "," + std::to_string(std::get<1>(R[k])) + ") is " + std::get<2>(R[k]) +
                " row-wise but (" + std::to_string(std::get<0>(Cc[k])) + "," + std::to_string(std::get<1>(Cc[k])) + ")=" + std::get<2>(Cc[k]) + " column-wise");
         return false;
      }
      if(k > 0 && std::get<0>(R[k]) == std::get<0>(R[k - 1]) && std::get<1>(R[k]) == std::get<1>(R[k - 1])) dup++;
   }
   if(!rational)
   {
      for(int j = 0; j < n; j++) noteNonFinite(sp.objReal(j));
      if(g_nonfinite > 0)
      {
         // readLPF itself says "non-finite coefficients are not allowed"; NaN/inf matrix or objective entries make every later computation meaningless
         H.viol("C13:" + e + ":nonfinite-coefficient:" + sfx, std::to_string(g_nonfinite) + " matrix/objective coefficient(s) of the LP are NaN or infinite (e.g. the literals nan, inf, 1e999 accepted by atof)");
         return false;
      }
   }
   if(dup)
   {
      cnt("observed.duplicate_matrix_entries");
      // SVectorBase::isConsistent() (ENABLE_CONSISTENCY_CHECKS) itself calls a repeated index with a nonzero value inconsistent
      H.viol("C13:" + e + ":inconsistent-svector:duplicate-index:" + sfx, std::to_string(dup) + " matrix position(s) are stored twice in the same row/column vector (SVectorBase::isConsistent "
             "would reject this); presolve and factorization assume unique indices");
      return false;
   }
   return true;
}

static inline bool sidesCheck(SoPlex& sp, int entry)
{
   std::string e = entryName[entry];
   int m = sp.numRows(), n = sp.numCols();
   for(int i = 0; i < m; i++)
   {
      double l = sp.lhsReal(i), r = sp.rhsReal(i);
      if(std::isnan(l) || std::isnan(r))
      {
         H.viol("C13:" + e + ":nan-side-or-bound", "row " + std::to_string(i) + " has a NaN side after a successful read");
         return false;
      }
      const double inf = soplex::infinity;
      if(std::max(-inf, std::min(inf, l)) > std::max(-inf, std::min(inf, r)))      // +-1e100 and beyond all mean "infinite"
      {
         H.viol("C13:" + e + ":lhs>rhs", "row " + std::to_string(i) + " has lhs " + ds(l) + " > rhs " + ds(r) + " after a successful read");
         break;
      }
   }
   cnt("post.sides_checked");
   // the readers do not promise lower<=upper for columns (a file may say so): observed, not judged
   for(int j = 0; j < n; j++)
   {
      if(std::isnan(sp.lowerReal(j)) || std::isnan(sp.upperReal(j)))
      {
         H.viol("C13:" + e + ":nan-side-or-bound", "column " + std::to_string(j) + " has a NaN bound after a successful read");
         return false;
      }
      if(sp.lowerReal(j) > sp.upperReal(j))
      {
         cnt("observed.lower_gt_upper");
         break;
      }
   }
   return true;
}

// the object must still be usable: clear, load a small good LP, solve it to its known optimum
static inline void reuseCheck(SoPlex& sp, int entry, const char* when, bool judge)
{
   std::string e = entryName[entry];
   try
   {
      sp.clearLPReal();
      sp.setIntParam(SoPlex::ITERLIMIT, -1, true);
      sp.setRealParam(SoPlex::TIMELIMIT, 60.0, true);
      loadReal(sp, C.good);
      if(sp.numRows() != C.good.m || sp.numCols() != C.good.n)
      {
         if(judge) H.viol("C13:" + e + ":unusable-" + when + ":dims", "after clearLPReal()+load the LP has " + std::to_string(sp.numRows()) + "x" + std::to_string(sp.numCols()) +
                             " instead of " + std::to_string(C.good.m) + "x" + std::to_string(C.good.n));
         return;
      }
      sp.optimize();
      cnt(std::string("post.reuse.") + when);
      bool okst = (int)sp.status() == 1;
      double obj = okst ? sp.objValueReal() : 0;
      if(!okst || std::fabs(obj - C.goodOpt) > 1e-6 * (1 + std::fabs(C.goodOpt)))
      {
         if(judge) H.viol("C13:" + e + ":unusable-" + when + ":" + stName(sp), "after clearLPReal()+load of the reference LP optimize() gives status " + stName(sp) + " objective " + ds(
                                obj) + ", known optimum " + ds(C.goodOpt));
         else cnt(std::string("observed.reuse_failed.") + when);
      }
   }
   catch(const std::exception& x)
   {
      if(judge) H.viol("C13:" + e + ":unusable-" + when + ":exception:" + demangle(typeid(x).name()), x.what());
   }
   catch(const soplex::SPxException& x)
   {
      if(judge) H.viol("C13:" + e + ":unusable-" + when + ":exception:" + demangle(typeid(x).name()), x.what());
   }
}

static inline void boundedOptimize(SoPlex& sp, int entry, const char* tag)
{
   std::string e = entryName[entry];
   try
   {
      sp.setIntParam(SoPlex::ITERLIMIT, 1000, true);
      sp.setRealParam(SoPlex::TIMELIMIT, 10.0, true);
      sp.optimize();
      cnt(std::string("post.optimize.") + tag + "." + stName(sp));
   }
   catch(const std::exception& x)
   {
      H.viol("C13:" + e + ":optimize-exception:" + demangle(typeid(x).name()), std::string("optimize() after ") + tag + " threw: " + x.what());
   }
   catch(const soplex::SPxException& x)
   {
      H.viol("C13:" + e + ":optimize-exception:" + demangle(typeid(x).name()), std::string("optimize() after ") + tag + " threw: " + x.what());
   }
}

static inline double readBudget(size_t sz)
{
   return 0.3 + 1.2 * (double)sz / 65536.0;
}

#define C13_GUARDED(call)                                                                             \
   try { call; }                                                                                      \
   catch(const std::exception& x) { out.threw = true; out.extype = demangle(typeid(x).name()); out.exwhat = x.what(); }       \
   catch(const soplex::SPxException& x) { out.threw = true; out.extype = demangle(typeid(x).name()); out.exwhat = x.what(); } \
   catch(...) { out.threw = true; out.extype = "unknown"; }

// run one input through one entry point followed by the fixed post-read sequence
static inline void runCase(const CaseIn& in, CaseOut& out)
{
   const int entry = in.entry;
   const std::string e = entryName[entry];
   g_entry = entry;
   cnt("entry." + e + ".inputs");
   std::string payload = in.bytes;
   if(in.variant & V_GZ) payload = gzipBytes(in.bytes, (in.variant & V_ZLIB) != 0);
   static const char* const ext[NENTRY] = {"in.lp", "in.lp", "in.mps", "in.mps", "in.bas", "in.set", "in.str"};
   std::string path = tmpPath(ext[entry]);
   if(entry != SET_STR && !writeWhole(path, payload))
   {
      fprintf(stderr, "c13: cannot write %s\n", path.c_str());
      exit(2);
   }
   CerrGuard cg;
   SoPlex sp;
   silence(sp);
   const bool rational = entry == LP_RAT || entry == MPS_RAT;
   const bool names = (in.variant & V_NAMES) != 0;
   NameSet rn, cn;
   DIdxSet iv;
   auto exceptionViol = [&]()
   {
      cnt("entry." + e + ".exceptions");
      std::string key = in.faultKey.empty() ? "C13:exception:" + e + ":" + out.extype : in.faultKey + ":" + out.extype;
      H.viol(key, "exception escaped from the " + e + " entry point: " + out.extype + ": " + out.exwhat.substr(0, 300));
   };
   auto finishRead = [&](double t0)
   {
      disarmTimer();
      g_phase = PH_POST;
      out.readCpu = cpuNow() - t0;
      if(H.maxi) H.maxi("read_cpu/budget", out.readCpu / (readBudget(payload.size()) * g_timeScale));
      armTimer(60.0);
   };
   if(entry <= MPS_RAT)
   {
      if(rational)
      {
         sp.setIntParam(SoPlex::READMODE, SoPlex::READMODE_RATIONAL, true);
         if(in.variant & V_SYNCAUTO) sp.setIntParam(SoPlex::SYNCMODE, SoPlex::SYNCMODE_AUTO, true);
      }
      if(in.variant & V_PRELOAD)
      {
         loadReal(sp, C.good);
         sp.optimize();
      }
      g_phase = PH_READ;
      double t0 = cpuNow();
      armTimer(readBudget(payload.size()));
      C13_GUARDED(out.ok = sp.readFile(path.c_str(), names ? &rn : nullptr, names ? &cn : nullptr, names ? &iv : nullptr));
      finishRead(t0);
      // "got past the first line": success, or the error message names a later line
      {
         const std::string& log = cg.cap.s;
         size_t p = log.rfind("rror in line ");
         long ln = p == std::string::npos ? 0 : atol(log.c_str() + p + 13);
         out.nontrivial = out.ok || ln >= 2;
      }
      if(out.threw)
      {
         exceptionViol();
         reuseCheck(sp, entry, "after-exception", false);
      }
      else if(out.ok)
      {
         cnt("entry." + e + ".success");
         bool wellFormed = mirrorCheck(sp, entry, "after-success", false);
         if(rational && sp.intParam(SoPlex::SYNCMODE) == SoPlex::SYNCMODE_AUTO) wellFormed = mirrorCheck(sp, entry, "after-success", true) && wellFormed;
         wellFormed = sidesCheck(sp, entry) && wellFormed;
         if(names)
         {
            cnt("post.namesets_checked");
            if(rn.num() != sp.numRows()) H.viol("C13:" + e + ":nameset-size:rows", "row name set has " + std::to_string(rn.num()) + " names for " + std::to_string(sp.numRows()) + " rows");
            if(cn.num() != sp.numCols()) H.viol("C13:" + e + ":nameset-size:cols", "column name set has " + std::to_string(cn.num()) + " names for " + std::to_string(sp.numCols()) + " columns");
            for(int q = 0; q < iv.size(); q++) if(iv.index(q) < 0 || iv.index(q) >= sp.numCols())
               {
                  H.viol("C13:" + e + ":intvars-out-of-range", "integer-variable set holds index " + std::to_string(iv.index(q)) + " for " + std::to_string(sp.numCols()) + " columns");
                  break;
               }
         }
         if(wellFormed) boundedOptimize(sp, entry, "read");      // an ill-formed LP is already reported; do not pile downstream crashes on it
         else cnt("post.optimize_skipped_illformed");
         reuseCheck(sp, entry, "after-success", true);
      }
      else
      {
         cnt("entry." + e + ".failure");
         mirrorCheck(sp, entry, "after-failure", false);
         reuseCheck(sp, entry, "after-failure", true);
      }
   }
   else if(entry == BASIS)
   {
      bool loaded = true;
      if(names) loaded = sp.readFile(C.baseMpsPath.c_str(), &rn, &cn);
      else loadReal(sp, C.good);
      if(!loaded || sp.numRows() != C.good.m || sp.numCols() != C.good.n)
      {
         fprintf(stderr, "c13: cannot load the base LP for the basis reader\n");
         exit(2);
      }
      if(in.variant & V_PRELOAD) sp.optimize();
      g_phase = PH_READ;
      double t0 = cpuNow();
      armTimer(readBudget(payload.size()));
      C13_GUARDED(out.ok = sp.readBasisFile(path.c_str(), names ? &rn : nullptr, names ? &cn : nullptr));
      finishRead(t0);
      {
         const std::string& log = cg.cap.s;
         size_t p = log.rfind("rror in line ");
         long ln = p == std::string::npos ? 0 : atol(log.c_str() + p + 13);
         out.nontrivial = out.ok || ln >= 2;
      }
      if(out.threw)
      {
         exceptionViol();
         reuseCheck(sp, entry, "after-exception", false);
      }
      else
      {
         cnt("entry." + e + (out.ok ? ".success" : ".failure"));
         if(out.ok != sp.hasBasis()) H.viol("C13:basis:hasBasis-mismatch", std::string("readBasisFile returned ") + (out.ok ? "true" : "false") + " but hasBasis() is " + (sp.hasBasis() ? "true" : "false"));
         mirrorCheck(sp, entry, out.ok ? "after-success" : "after-failure", false);
         // the LP is untouched by a basis read: it must still be solvable (after a failed read: to its known optimum)
         try
         {
            sp.setIntParam(SoPlex::ITERLIMIT, 1000, true);
            sp.setRealParam(SoPlex::TIMELIMIT, 10.0, true);
            sp.optimize();
            cnt(std::string("post.optimize.basis-") + (out.ok ? "ok." : "fail.") + stName(sp));
            bool opt = (int)sp.status() == 1 && std::fabs(sp.objValueReal() - C.goodOpt) <= 1e-6 * (1 + std::fabs(C.goodOpt));
            if(!opt)
            {
               if(!out.ok) H.viol("C13:basis:unusable-after-failure:solve:" + stName(sp), "after a failed basis read the loaded LP no longer solves to its known optimum " + ds(C.goodOpt));
               else cnt("observed.basis_ok_but_solve_not_optimal");
            }
         }
         catch(const std::exception& x)
         {
            H.viol("C13:basis:optimize-exception:" + demangle(typeid(x).name()), x.what());
         }
         catch(const soplex::SPxException& x)
         {
            H.viol("C13:basis:optimize-exception:" + demangle(typeid(x).name()), x.what());
         }
         reuseCheck(sp, entry, out.ok ? "after-success" : "after-failure", true);
      }
   }
   else
   {
      std::vector<char> str;
      if(entry == SET_STR)
      {
         size_t L = strnlen(in.bytes.data(), in.bytes.size());
         str.assign(in.bytes.begin(), in.bytes.begin() + L);       // exact-size heap copy: any over-read is visible to ASan
         str.push_back('\0');
      }
      g_phase = PH_READ;
      double t0 = cpuNow();
      armTimer(readBudget(payload.size()));
      if(entry == SET_FILE)
      {
         C13_GUARDED(out.ok = sp.loadSettingsFile(path.c_str()));
      }
      else
      {
         C13_GUARDED(out.ok = sp.parseSettingsString(str.data()));
      }
      finishRead(t0);
      out.nontrivial = in.bytes.find(':') != std::string::npos && in.bytes.find('=') != std::string::npos;
      if(out.threw) exceptionViol();
      else cnt("entry." + e + (out.ok ? ".success" : ".failure"));
      // whatever was set: the object must load and run a solve without memory errors ...
      silence(sp);
      if(!out.threw)
      {
         try
         {
            loadReal(sp, C.good);
            sp.setIntParam(SoPlex::ITERLIMIT, 1000, true);
            sp.setRealParam(SoPlex::TIMELIMIT, 10.0, true);
            sp.optimize();
            cnt("post.optimize.settings." + stName(sp));
         }
         catch(const std::exception& x)
         {
            H.viol("C13:" + e + ":optimize-exception:" + demangle(typeid(x).name()), x.what());
         }
         catch(const soplex::SPxException& x)
         {
            H.viol("C13:" + e + ":optimize-exception:" + demangle(typeid(x).name()), x.what());
         }
      }
      // ... and after a reset to default settings solve the reference LP to its known optimum
      SoPlex::Settings def;
      sp.setSettings(def, true);
      silence(sp);
      reuseCheck(sp, entry, out.threw ? "after-exception" : (out.ok ? "after-success" : "after-failure"), !out.threw);
   }
   disarmTimer();
   g_phase = PH_IDLE;
   cnt("post.sequences_run");
}

} // namespace c13

extern "C" void __asan_on_error()
{
   c13::printSyntheticFrames();
}
extern "C" void __ubsan_on_report()
{
   c13::printSyntheticFrames();
}
#include "c13_seeds.hpp"
