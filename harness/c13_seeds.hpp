// harness/c13_seeds.hpp -- seed files (shipped instances, SoPlex writer output, hand-written documents) for the C13 readers,
// the deterministic enumerations and the structure-aware mutator.  Included at the end of c13_common.hpp.
#pragma once

namespace c13
{
// ---------------------------------------------------------------- hand-written documents, section by section
static inline std::vector<std::string> handLPSections()
{
   return
   {
      "\\ hand-written LP with every section\n",
      "Maximize\n obj: 2 x1 + 3 x2 - x3 + 0.5 y\n",
      "Subject To\n c1: x1 + x2 + x3 <= 10\n c2: x1 - x2 >= -2.5e0\n c3: x1 + 3 x2 + y = 7\n c4: - x3 + 2 y <= 1e1\n",
      "Bounds\n 0 <= x1 <= 4\n x2 <= 5\n -inf <= x3 <= +inf\n y free\n x1 >= 1\n",
      "Generals\n x1\n",
      "Binaries\n x2\n",
      "End\n"
   };
}
static inline std::vector<std::string> handMPSSections()
{
   return
   {
      "* hand-written MPS with every section\n",
      "NAME          TESTLP\n",
      "OBJSENSE\n    MAX\n",
      "ROWS\n N  COST\n L  LIM1\n G  LIM2\n E  MYEQN\n L  LIM3\n",
      "COLUMNS\n    MARKER                 'MARKER'                 'INTORG'\n    X1        COST               1.0   LIM1               1.0\n"
      "    X1        LIM2               1.0\n    MARKER                 'MARKER'                 'INTEND'\n"
      "    X2        COST               2.0   LIM1               1.0\n    X2        MYEQN             -1.0\n"
      "    X3        COST              -1.0   MYEQN              1.0\n    X3        LIM3             1.5e0\n",
      "RHS\n    RHS       LIM1               4.0   LIM2               1.0\n    RHS       MYEQN              7.0   LIM3                 9\n",
      "RANGES\n    RNG       LIM1               2.5   MYEQN               -3\n",
      "BOUNDS\n UP BND       X1                 4.0\n LO BND       X2                -1.0\n UP BND       X2                 1.0\n MI BND       X3\n FR BND       X3\n",
      "ENDATA\n"
   };
}
static inline std::string joinS(const std::vector<std::string>& v)
{
   std::string s;
   for(auto& x : v) s += x;
   return s;
}
static inline std::vector<std::string> splitLines(const std::string& s)     // lines keep their '\n'
{
   std::vector<std::string> out;
   size_t p = 0;
   while(p < s.size())
   {
      size_t q = s.find('\n', p);
      if(q == std::string::npos) q = s.size() - 1;
      out.push_back(s.substr(p, q - p + 1));
      p = q + 1;
   }
   return out;
}

// ---------------------------------------------------------------- seed pool
struct Seed
{
   std::string name, bytes;
   char kind;      // 'l' LP, 'm' MPS, 'b' basis, 's' settings
   bool shipped;
};
struct Pool
{
   std::vector<Seed> all;
   std::vector<int> shippedSmall;     // indices of the 6 smallest shipped instances
   std::vector<const Seed*> of(char k) const
   {
      std::vector<const Seed*> r;
      for(auto& s : all) if(s.kind == k) r.push_back(&s);
      return r;
   }
};
static Pool P;

static inline std::string instancesDir()
{
   const char* r = getenv("VERIF_REPO");
   std::string d = std::string(r && *r ? r : "/repo") + "/check/instances";
   struct stat st;
   if(stat(d.c_str(), &st) != 0) d = "/repo/check/instances";
   return d;
}

static inline void buildPool()
{
   if(!P.all.empty()) return;
   // (a) shipped: the 6 smallest instances, plus up to 6 more below 25 kB for the mutator
   std::string dir = instancesDir();
   std::vector<std::pair<long, std::string>> files;
   if(DIR* d = opendir(dir.c_str()))
   {
      while(dirent* de = readdir(d))
      {
         std::string n = de->d_name;
         if(n.size() < 4) continue;
         struct stat st;
         if(stat((dir + "/" + n).c_str(), &st) == 0 && S_ISREG(st.st_mode)) files.emplace_back((long)st.st_size, n);
      }
      closedir(d);
   }
   std::sort(files.begin(), files.end());
   for(size_t i = 0; i < files.size() && i < 12; i++)
   {
      if(i >= 6 && files[i].first > 25000) break;
      Seed s;
      s.name = files[i].second;
      s.shipped = true;
      std::string nm = s.name;
      if(nm.size() > 3 && nm.compare(nm.size() - 3, 3, ".gz") == 0) nm.erase(nm.size() - 3);
      s.kind = (nm.size() > 3 && nm.compare(nm.size() - 3, 3, ".lp") == 0) ? 'l' : 'm';
      if(!readWhole(dir + "/" + s.name, s.bytes)) continue;
      if(i < 6) P.shippedSmall.push_back((int)P.all.size());
      P.all.push_back(s);
   }
   // (b) SoPlex's own writers on vl::genFamily LPs (fixed generator state: the enumeration must not depend on the seed)
   static const char* fams[] = {"planted-opt", "arbitrary", "presolve-rich", "degenerate", "planted-infeasible", "planted-unbounded"};
   for(int t = 0; t < 6; t++)
   {
      Rng g(fnv("C13seedlp"), 0, (uint64_t)t);
      Instance I = genFamily(g, fams[t], 6, 6);
      if(!allExactDoubles(I.M)) continue;
      SoPlex sp;
      silence(sp);
      loadReal(sp, I.M);
      for(int f = 0; f < 2; f++)
      {
         std::string path = tmpPath(f == 0 ? "w.lp" : "w.mps");
         try
         {
            sp.writeFileReal(path.c_str());
         }
         catch(...)      // the MPS writer throws on free rows (C12's business): no seed from this LP
         {
            unlink(path.c_str());
            continue;
         }
         Seed s;
         s.name = std::string("writer-") + fams[t] + (f == 0 ? ".lp" : ".mps");
         s.kind = f == 0 ? 'l' : 'm';
         s.shipped = false;
         if(readWhole(path, s.bytes)) P.all.push_back(s);
         unlink(path.c_str());
      }
   }
   {
      // rational writer (fractions)
      Rng g(fnv("C13seedlp"), 1, 0);
      Instance I = genFamily(g, "planted-opt", 5, 5);
      for(auto& r : I.M.A) for(auto& a : r) if(a != 0 && g.chance(0.5)) a = a / Q(g.range(2, 7));
      SoPlex sp;
      silence(sp);
      sp.setIntParam(SoPlex::SYNCMODE, SoPlex::SYNCMODE_AUTO, true);
      loadRational(sp, I.M);
      for(int f = 0; f < 2; f++)
      {
         std::string path = tmpPath(f == 0 ? "w.lp" : "w.mps");
         try
         {
            sp.writeFileRational(path.c_str());
         }
         catch(...)
         {
            unlink(path.c_str());
            continue;
         }
         Seed s;
         s.name = std::string("writer-rational") + (f == 0 ? ".lp" : ".mps");
         s.kind = f == 0 ? 'l' : 'm';
         s.shipped = false;
         if(readWhole(path, s.bytes)) P.all.push_back(s);
         unlink(path.c_str());
      }
   }
   P.all.push_back(Seed{"hand.lp", joinS(handLPSections()), 'l', false});
   P.all.push_back(Seed{"hand.mps", joinS(handMPSSections()), 'm', false});
   // (c) basis files of the base LP (with its names == default names) and hand-written ones
   {
      SoPlex sp;
      silence(sp);
      NameSet rn, cn;
      sp.readFile(C.baseMpsPath.c_str(), &rn, &cn);
      sp.optimize();
      for(int f = 0; f < 2; f++)
      {
         std::string path = tmpPath("w.bas");
         sp.writeBasisFile(path.c_str(), f == 0 ? &rn : nullptr, f == 0 ? &cn : nullptr);
         Seed s;
         s.name = f == 0 ? "writer-names.bas" : "writer-default.bas";
         s.kind = 'b';
         s.shipped = false;
         if(readWhole(path, s.bytes)) P.all.push_back(s);
         unlink(path.c_str());
      }
      std::string hb = "NAME  base.bas\n";
      if(cn.num() >= 3 && rn.num() >= 2)
      {
         hb += std::string(" XU ") + cn[0] + "  " + rn[0] + "\n";
         hb += std::string(" XL ") + cn[1] + "  " + rn[1] + "\n";
         hb += std::string(" UL ") + cn[2] + "\n";
         hb += std::string(" LL ") + cn[0] + "\n";
      }
      hb += "ENDATA\n";
      P.all.push_back(Seed{"hand.bas", hb, 'b', false});
   }
   // (d) settings files
   {
      SoPlex sp;
      silence(sp);
      std::string path = tmpPath("w.set");
      sp.saveSettingsFile(path.c_str(), false);
      Seed s;
      s.name = "writer-full.set";
      s.kind = 's';
      s.shipped = false;
      if(readWhole(path, s.bytes)) P.all.push_back(s);
      sp.setIntParam(SoPlex::ITERLIMIT, 500, true);
      sp.setRealParam(SoPlex::FEASTOL, 1e-7, true);
      sp.setBoolParam(SoPlex::LIFTING, true, true);
      sp.setIntParam(SoPlex::SIMPLIFIER, 0, true);
      sp.saveSettingsFile(path.c_str(), true);
      s.name = "writer-changed.set";
      if(readWhole(path, s.bytes)) P.all.push_back(s);
      unlink(path.c_str());
      P.all.push_back(Seed{"hand.set", "# comment\nbool:lifting = true\nint : iterlimit = 100 # trailing\nreal:feastol=1e-7\nuint:random_seed = 42\n\n   \nint:simplifier = 0\n", 's', false});
   }
}

static inline char kindOfEntry(int e)
{
   return e <= LP_RAT ? 'l' : e <= MPS_RAT ? 'm' : e == BASIS ? 'b' : 's';
}

// ---------------------------------------------------------------- deterministic enumeration
struct Item
{
   int entry;
   unsigned variant;
   std::string cat;                          // category (stable; part of the case description)
   std::string label;                        // human-readable details
   std::function<std::string()> gen;
};
static std::vector<Item> E;

static inline std::string nameOfLen(int len, int salt)
{
   static const char first[] = "abcdefghijklmnopqrstuvwxyzABCDEFGHIJKLMNOPQRSTUVWXYZ_";
   static const char rest[] = "abcdefghijklmnopqrstuvwxyz0123456789_ABCDEFGHIJKLMNOPQRSTUVWXYZ";
   std::string s;
   for(int i = 0; i < len; i++) s += i == 0 ? first[(salt + len) % (sizeof(first) - 1)] : rest[(salt + i * 7 + len) % (sizeof(rest) - 1)];
   return s;
}
static inline std::string digitsOfLen(int len)
{
   std::string s;
   for(int i = 0; i < len; i++) s += (char)('1' + (i % 9));
   return s;
}
static inline std::string padTo(const std::string& head, const std::string& tail, int L, char fill)
{
   int need = L - (int)head.size() - (int)tail.size();
   return head + std::string((size_t)std::max(0, need), fill) + tail;
}

static inline void addBoth(int entryReal, unsigned variant, const std::string& cat, const std::string& label, std::function<std::string()> gen)
{
   // LP / MPS inputs go through the real and the rational read mode
   E.push_back(Item{entryReal, variant, cat, label, gen});
   E.push_back(Item{entryReal + 1, variant ^ V_SYNCAUTO, cat, label, gen});
}
static inline void addFor(char kind, unsigned variant, const std::string& cat, const std::string& label, std::function<std::string()> gen)
{
   if(kind == 'l') addBoth(LP_REAL, variant, cat, label, gen);
   else if(kind == 'm') addBoth(MPS_REAL, variant, cat, label, gen);
   else if(kind == 'b') E.push_back(Item{BASIS, variant, cat, label, gen});
   else
   {
      E.push_back(Item{SET_FILE, variant, cat, label, gen});
   }
}

static inline std::string lpDoc(const std::string& objTerm, const std::string& rowLine, const std::string& boundLine)
{
   return "Minimize\n obj: " + objTerm + "\nSubject To\n" + rowLine + "\n c9: x1 + x2 >= 1\nBounds\n" + boundLine + "\n x2 <= 8\nEnd\n";
}
static inline std::string mpsDoc(const std::string& rowsExtra, const std::string& colsExtra, const std::string& rhsExtra, const std::string& rngExtra, const std::string& bndExtra,
                                 const std::string& nameLine = "NAME T\n")
{
   return nameLine + "ROWS\n N obj\n G r1\n L r2\n E r3\n" + rowsExtra + "COLUMNS\n x1 obj 1 r1 1\n x1 r2 1 r3 1\n x2 obj 2 r1 1\n x2 r3 -1\n" + colsExtra + "RHS\n rhs r1 1 r2 10\n rhs r3 2\n" +
          rhsExtra + "RANGES\n rng r1 4\n" + rngExtra + "BOUNDS\n UP bnd x1 4\n" + bndExtra + "ENDATA\n";
}

static inline void buildEnum()
{
   if(!E.empty()) return;
   buildPool();
   int vflip = 0;
   auto nextVar = [&]() -> unsigned
   {
      vflip++;
      return (vflip & 1 ? V_NAMES : 0u) | (vflip % 5 == 0 ? V_PRELOAD : 0u);
   };
   // ---- A. truncations: every line prefix and every 512-byte prefix
   std::vector<const Seed*> tr;
   for(int i : P.shippedSmall) tr.push_back(&P.all[i]);
   for(auto& s : P.all)
   {
      if(s.shipped) continue;
      if(s.name == "writer-planted-opt.lp" || s.name == "writer-arbitrary.lp" || s.name == "writer-planted-opt.mps" || s.name == "writer-arbitrary.mps" || s.name == "writer-rational.lp" ||
            s.name == "writer-rational.mps" || s.kind == 'b' || s.kind == 's' || s.name == "hand.lp" || s.name == "hand.mps") tr.push_back(&s);
   }
   for(const Seed* s : tr)
   {
      std::vector<std::string> lines = splitLines(s->bytes);
      for(size_t L = 0; L <= lines.size(); L++)
      {
         addFor(s->kind, nextVar(), "trunc-line", s->name + " first " + std::to_string(L) + " lines", [s, L]()
         {
            std::vector<std::string> ls = splitLines(s->bytes);
            std::string o;
            for(size_t q = 0; q < L && q < ls.size(); q++) o += ls[q];
            return o;
         });
      }
      for(size_t b = 512; b < s->bytes.size(); b += 512)
         addFor(s->kind, nextVar(), "trunc-512", s->name + " first " + std::to_string(b) + " bytes", [s, b]()
      {
         return s->bytes.substr(0, b);
      });
      // last line without its newline
      addFor(s->kind, nextVar(), "trunc-nonl", s->name + " without final newline", [s]()
      {
         std::string o = s->bytes;
         while(!o.empty() && (o.back() == '\n' || o.back() == '\r')) o.pop_back();
         return o;
      });
   }
   // ---- B. line lengths around the buffer sizes
   std::vector<int> lens;
   for(int l = 254; l <= 258; l++) lens.push_back(l);
   for(int l = 496; l <= 502; l++) lens.push_back(l);
   for(int l = 8189; l <= 8194; l++) lens.push_back(l);
   for(int l = 65534; l <= 65538; l++) lens.push_back(l);
   for(int L : lens)
   {
      std::string ls = std::to_string(L);
      for(int kind = 0; kind < 7; kind++)
         addBoth(LP_REAL, nextVar(), "linelen-lp-k" + std::to_string(kind), "LP line of " + ls + " chars, kind " + std::to_string(kind), [L, kind]()
      {
         switch(kind)
         {
         case 0: return lpDoc("x1 + x2", padTo("\\", "", L, 'c'), " x1 <= 4");
         case 1: return lpDoc(padTo("x1 + ", "", L - 6, 'n'), " c1: x1 >= 0", " x1 <= 4");
         case 2: return lpDoc("x1 + x2", padTo(" c1: ", " x1 >= 1", L, '7'), " x1 <= 4");
         case 3: return lpDoc("x1 + x2", padTo("r", ": x1 >= 1", L, 'w'), " x1 <= 4");
         case 4:
         {
            std::string l = " c1: ";
            while((int)l.size() + 16 < L) l += "+ x1 - x2 ";
            return lpDoc("x1 + x2", padTo(l, " >= 1", L, ' '), " x1 <= 4");
         }
         case 5: return lpDoc("x1 + x2", padTo(" c1: x1", ">= 1", L, ' '), " x1 <= 4");
         default: return lpDoc("x1 + x2", " c1: x1 >= 0", padTo(" x1 <= ", "", L, '3'));
         }
      });
      for(int kind = 0; kind < 6; kind++)
         addBoth(MPS_REAL, nextVar(), "linelen-mps-k" + std::to_string(kind), "MPS line of " + ls + " chars, kind " + std::to_string(kind), [L, kind]()
      {
         switch(kind)
         {
         case 0: return padTo("*", "", L, 'c') + "\n" + mpsDoc("", "", "", "", "");
         case 1: return mpsDoc("", "", "", "", "", padTo("NAME ", "", L, 'N') + "\n");
         case 2: return mpsDoc(padTo(" G r", "", L, 'w') + "\n", "", "", "", "");
         case 3: return mpsDoc("", padTo(" c", " obj 1", L, 'v') + "\n", "", "", "");
         case 4: return mpsDoc("", padTo(" x3 obj ", "", L, '5') + "\n", "", "", "");
         default: return mpsDoc("", padTo(" x3 obj 1", "", L, ' ') + "\n", "", "", "");
         }
      });
      for(int kind = 0; kind < 2; kind++)
         E.push_back(Item{BASIS, nextVar(), "linelen-bas-k" + std::to_string(kind), "basis line of " + ls + " chars", [L, kind]()
      {
         return kind == 0 ? "NAME b\n" + padTo(" UL x", "", L, 'q') + "\nENDATA\n" : padTo("NAME ", "", L, 'b') + "\n UL x0\nENDATA\n";
      }});
      for(int kind = 0; kind < 6; kind++)
         for(int en = SET_FILE; en <= SET_STR; en++)
            E.push_back(Item{en, 0, "linelen-set-k" + std::to_string(kind), "settings line of " + ls + " chars, kind " + std::to_string(kind), [L, kind, en]()
         {
            std::string l;
            switch(kind)
            {
            case 0: l = padTo("#", "", L, 'c'); break;
            case 1: l = padTo("int:iterlimit = ", "", L, '1'); break;
            case 2: l = padTo("int:", " = 1", L, 'n'); break;
            case 3: l = std::string((size_t)L, 'a'); break;
            case 4: l = padTo("real:feastol = 1e-", "", L, '9'); break;
            default: l = padTo("bool:lifting", "= true", L, ' '); break;
            }
            return en == SET_FILE ? "int:iterlimit = 77\n" + l + "\nbool:lifting = true\n" : l;
         }});
   }
   // ---- C. names of 1..300 characters
   for(int len = 1; len <= 300; len++)
   {
      std::string ls = std::to_string(len);
      addBoth(LP_REAL, nextVar(), "namelen-lp", "LP names of " + ls + " chars", [len]()
      {
         std::string cnm = nameOfLen(len, 1), rnm = nameOfLen(len, 2);
         return "Maximize\n obj: 2 " + cnm + " + x2\nSubject To\n " + rnm + ": " + cnm + " + x2 <= 7\n c2: " + cnm + " - x2 >= -3\nBounds\n " + cnm + " <= 5\nGenerals\n " + cnm + "\nEnd\n";
      });
      addBoth(MPS_REAL, nextVar(), "namelen-mps", "MPS names of " + ls + " chars", [len]()
      {
         std::string cnm = nameOfLen(len, 3), rnm = nameOfLen(len, 4);
         return "NAME " + nameOfLen(len, 5) + "\nROWS\n N obj\n L " + rnm + "\n G r2\nCOLUMNS\n " + cnm + " obj 2 " + rnm + " 1\n " + cnm + " r2 1\n x2 obj 1 " + rnm + " 1\n x2 r2 -1\nRHS\n rhs " + rnm +
                " 7 r2 -3\nBOUNDS\n UP bnd " + cnm + " 5\nENDATA\n";
      });
      E.push_back(Item{BASIS, nextVar(), "namelen-bas", "basis names of " + ls + " chars", [len]()
      {
         return "NAME " + nameOfLen(len, 6) + "\n XU " + nameOfLen(len, 7) + " " + nameOfLen(len, 8) + "\n UL x1\nENDATA\n";
      }});
      for(int en = SET_FILE; en <= SET_STR; en++) E.push_back(Item{en, 0, "namelen-set", "settings parameter name of " + ls + " chars", [len, en]()
      {
         return std::string(len % 3 == 0 ? "bool:" : len % 3 == 1 ? "int:" : "real:") + nameOfLen(len, 9) + " = 1" + (en == SET_FILE ? "\n" : "");
      }});
   }
   // ---- D. NUL bytes
   for(auto& s : P.all)
   {
      if(!(s.name == "afiro.lp" || s.name == "galenet.mps" || s.name == "hand.lp" || s.name == "hand.mps" || s.name == "hand.bas" || s.name == "hand.set" || s.name == "writer-names.bas" ||
            s.name == "writer-changed.set")) continue;
      const Seed* sp = &s;
      std::vector<size_t> pos;
      for(int q = 0; q < 24; q++) pos.push_back(s.bytes.size() * (size_t)q / 24);
      size_t ln = 0;
      for(size_t q = 0; q < s.bytes.size() && ln < 8; q++) if(s.bytes[q] == '\n')
         {
            pos.push_back(q + 1);
            pos.push_back(q);
            ln++;
         }
      for(size_t p : pos) for(int op = 0; op < 2; op++)
            addFor(s.kind, nextVar(), op == 0 ? "nul-insert" : "nul-replace", s.name + " NUL at byte " + std::to_string(p), [sp, p, op]()
         {
            std::string o = sp->bytes;
            size_t q = std::min(p, o.size());
            if(op == 0 || q >= o.size()) o.insert(q, 1, '\0');
            else o[q] = '\0';
            return o;
         });
   }
   // settings string with embedded / leading NUL
   E.push_back(Item{SET_STR, 0, "nul-insert", "settings string starting with NUL", []()
   {
      return std::string("\0int:iterlimit = 5", 18);
   }});
   // ---- E. exponents of 1..6 digits
   for(int d = 1; d <= 6; d++) for(int pat = 0; pat < 2; pat++) for(int form = 0; form < 4; form++)
         {
            std::string D = pat == 0 ? std::string((size_t)d, '9') : "1" + std::string((size_t)(d - 1), '0');
            std::string lit = form == 0 ? "1e" + D : form == 1 ? "1e-" + D : form == 2 ? "1E+" + D : "2.5e" + D;
            for(int spot = 0; spot < 4; spot++)
            {
               addBoth(LP_REAL, nextVar(), "exponent-lp-s" + std::to_string(spot), "LP literal " + lit + " spot " + std::to_string(spot), [lit, spot]()
               {
                  switch(spot)
                  {
                  case 0: return lpDoc(lit + " x1 + x2", " c1: x1 >= 0", " x1 <= 4");
                  case 1: return lpDoc("x1 + x2", " c1: " + lit + " x1 + x2 >= 1", " x1 <= 4");
                  case 2: return lpDoc("x1 + x2", " c1: x1 + x2 <= " + lit, " x1 <= 4");
                  default: return lpDoc("x1 + x2", " c1: x1 >= 0", " x1 <= " + lit);
                  }
               });
               addBoth(MPS_REAL, nextVar(), "exponent-mps-s" + std::to_string(spot), "MPS literal " + lit + " spot " + std::to_string(spot), [lit, spot]()
               {
                  switch(spot)
                  {
                  case 0: return mpsDoc("", " x3 obj " + lit + " r1 " + lit + "\n", "", "", "");
                  case 1: return mpsDoc("", "", " rhs r2 " + lit + "\n", "", "");
                  case 2: return mpsDoc("", "", "", " rng r3 " + lit + "\n", "");
                  default: return mpsDoc("", "", "", "", " UP bnd x2 " + lit + "\n LO bnd x1 -" + lit + "\n");
                  }
               });
            }
            for(int en = SET_FILE; en <= SET_STR; en++) for(int w = 0; w < 2; w++)
                  E.push_back(Item{en, 0, "exponent-set", "settings literal " + lit, [lit, en, w]()
               {
                  return std::string(w == 0 ? "real:feastol = " : "real:timelimit = ") + lit + (en == SET_FILE ? "\nint:iterlimit = 9\n" : "");
               }});
         }
   // ---- F. duplicated / missing / reordered sections, duplicate names
   for(int doc = 0; doc < 2; doc++)
   {
      size_t ns = (doc == 0 ? handLPSections() : handMPSSections()).size();
      auto mk = [doc](std::function<void(std::vector<std::string>&)> op)
      {
         return [doc, op]()
         {
            std::vector<std::string> v = doc == 0 ? handLPSections() : handMPSSections();
            op(v);
            return joinS(v);
         };
      };
      char kind = doc == 0 ? 'l' : 'm';
      std::string dn = doc == 0 ? "lp" : "mps";
      for(size_t i = 0; i < ns; i++)
      {
         addFor(kind, nextVar(), "section-missing-" + dn, "section " + std::to_string(i) + " removed", mk([i](std::vector<std::string>& v)
         {
            v.erase(v.begin() + (long)i);
         }));
         addFor(kind, nextVar(), "section-dup-" + dn, "section " + std::to_string(i) + " duplicated", mk([i](std::vector<std::string>& v)
         {
            v.insert(v.begin() + (long)i, v[i]);
         }));
         addFor(kind, nextVar(), "section-dupend-" + dn, "section " + std::to_string(i) + " repeated before the end marker", mk([i](std::vector<std::string>& v)
         {
            v.insert(v.end() - 1, v[i]);
         }));
         if(i + 1 < ns) addFor(kind, nextVar(), "section-swap-" + dn, "sections " + std::to_string(i) + " and next swapped", mk([i](std::vector<std::string>& v)
         {
            std::swap(v[i], v[i + 1]);
         }));
         for(size_t j = i + 2; j < ns; j++) addFor(kind, nextVar(), "section-swap2-" + dn, "sections " + std::to_string(i) + "," + std::to_string(j) + " swapped", mk([i, j](std::vector<std::string>& v)
         {
            std::swap(v[i], v[j]);
         }));
      }
      addFor(kind, nextVar(), "section-reverse-" + dn, "all sections reversed", mk([](std::vector<std::string>& v)
      {
         std::reverse(v.begin(), v.end());
      }));
      addFor(kind, nextVar(), "section-twice-" + dn, "whole document twice", mk([](std::vector<std::string>& v)
      {
         std::vector<std::string> w = v;
         v.insert(v.end(), w.begin(), w.end());
      }));
   }
   {
      static const char* lpDup[] =
      {
         "Minimize\n obj: x1 + x2\nSubject To\n c1: x1 + x2 >= 1\n c1: x1 - x2 <= 3\nEnd\n",
         "Minimize\n obj: x1 + x2\nSubject To\n C2: x1 + x2 >= 1\n x1 - x2 <= 3\n x1 <= 9\nEnd\n",
         "Minimize\n obj: x1 + x1 + x2\nSubject To\n c1: x1 + x2 + x1 >= 1\n c2: x1 - x1 + x2 <= 3\nEnd\n",
         "Minimize\n obj: x1 + x2\nSubject To\n x1: x1 + x2 >= 1\n x2: x1 <= 3\nBounds\n x1 <= 4\n x1 <= 5\n x1 >= 6\nEnd\n",
         "Minimize\n obj: x1\nSubject To\n c1: x1 >= 1\nBounds\n 5 <= x1 <= 3\nEnd\n",
         "Maximize\n obj: x1\nSubject To\n c1: x1 >= 1\n c1: x1 >= 2\n c1: x1 <= 3\nBounds\n x1 free\n x1 free\nGenerals\n x1 x1\nBinaries\n x1\n x1\nEnd\n",
         "Minimize\n obj:\nSubject To\n c1: 0 x1 >= -1\nEnd\n",
         "Minimize\n obj: x1\nSubject To\n c1: >= 1\n c2: x1 >= 1\nEnd\n",
         "Minimize\n obj: x1\nSubject To\n c1: x1 >= 1\nBounds\n zz <= 4\n -inf <= x1 <= +infinity\n x1 = 2\nBinaries\n yy\nEnd\n",
      };
      for(size_t q = 0; q < sizeof(lpDup) / sizeof(lpDup[0]); q++) addBoth(LP_REAL, V_NAMES, "dupnames-lp", "LP duplicate-name document " + std::to_string(q), [q]()
      {
         return std::string(lpDup[q]);
      });
      static const char* mpsDup[] =
      {
         "NAME T\nROWS\n N obj\n G r1\n L r1\nCOLUMNS\n x1 obj 1 r1 1\nRHS\n rhs r1 1\nENDATA\n",
         "NAME T\nROWS\n N obj\n G r1\n L r2\nCOLUMNS\n x1 obj 1 r1 1\n x2 obj 1 r2 1\n x1 r2 1\nRHS\n rhs r1 1\nENDATA\n",
         "NAME T\nROWS\n N obj\n G r1\n L r2\nCOLUMNS\n x1 obj 1 r1 1\n x1 r1 2 r1 3\n x2 r2 1 r2 1\nRHS\n rhs r1 1 r1 2\n rhs r2 5\nENDATA\n",
         "NAME T\nROWS\n N obj\n N obj2\n G r1\n L r2\nCOLUMNS\n x1 obj 1 obj2 5\n x1 r1 1 r2 1\nRHS\n rhs obj 3 r1 1\n rhs2 r2 4\n rhs r2 5\nBOUNDS\n UP b x1 4\n UP b x1 5\n UP b2 x1 6\n LO b x1 7\nENDATA\n",
         "NAME T\nROWS\n N obj\n E r1\n G r2\n L r3\nCOLUMNS\n x1 obj 1 r1 1\n x1 r2 1 r3 1\nRHS\n rhs r1 1 r2 1\n rhs r3 1\nRANGES\n rng r1 -2 r2 -3\n rng r3 -4 r1 5\nENDATA\n",
         "NAME T\nROWS\n N obj\n G r1\nCOLUMNS\n x1 obj 1 r1 1\n x2 obj 1 r1 1\nRHS\n rhs r1 1\nBOUNDS\n UP b x1 -4\n MI b x1\n PL b x1\n BV b x2\n LI b x2 -3\n UI b x2 9\n FX b x1 2\n FR b x1\n XX b x1 1\nENDATA\n",
         "NAME T\nROWS\n N obj\n G x1\n L obj\nCOLUMNS\n x1 obj 1 x1 1\n obj obj 1 x1 1\nRHS\n rhs x1 1\nENDATA\n",
         "NAME\nROWS\n N obj\n G r1\nCOLUMNS\n x1 obj nan r1 inf\n x2 obj -inf r1 1e999\nRHS\n rhs r1 nan\nBOUNDS\n UP b x1 nan\n LO b x2 inf\nENDATA\n",
         "NAME T\nOBJSENSE\n MAX\nOBJNAME\n second\nROWS\n N first\n N second\n G r1\nCOLUMNS\n x1 first 1 second 2\n x1 r1 1\nRHS\n rhs r1 1\nBOUNDS\n\n UP b x1 4\nENDATA\n",
         "NAME T\nROWS\n N obj\n G r1\nCOLUMNS\n x1 obj 1 r1 1\nRHS\n rhs r1 1\nBOUNDS\n \n   \n UP\nENDATA\n",
      };
      for(size_t q = 0; q < sizeof(mpsDup) / sizeof(mpsDup[0]); q++) addBoth(MPS_REAL, V_NAMES, "dupnames-mps", "MPS duplicate-name document " + std::to_string(q), [q]()
      {
         return std::string(mpsDup[q]);
      });
   }
   {
      // basis documents: statuses, duplicates, unknown names, missing markers (names x0..,C0.. are the base LP's)
      static const char* st[] = {"XU", "XL", "UL", "LL", "BS", "XX", "X", "U"};
      for(size_t a = 0; a < 8; a++) for(int w = 0; w < 6; w++)
            E.push_back(Item{BASIS, nextVar(), "basis-doc-" + std::to_string(w), std::string("basis status ") + st[a] + " form " + std::to_string(w), [a, w]()
         {
            std::string s = st[a];
            switch(w)
            {
            case 0: return "NAME b\n " + s + " x0 C0\nENDATA\n";
            case 1: return "NAME b\n " + s + " x0 C0\n " + s + " x1 C0\n " + s + " x0 C1\nENDATA\n";
            case 2: return "NAME b\n " + s + " x0\n " + s + " C0 x0\nENDATA\n";
            case 3: return "NAME b\n " + s + " x0 C0\n";
            case 4: return " " + s + " x0 C0\nENDATA\n";
            default: return "NAME b\n " + s + " x0 C0\n " + s + " x1 C1\n " + s + " x2 C2\n UL x0\n LL x1\nENDATA\nNAME c\n UL x0\nENDATA\n";
            }
         }});
      E.push_back(Item{BASIS, V_NAMES, "basis-doc-all", "every column basic on every row", []()
      {
         std::string s = "NAME b\n";
         for(int j = 0; j < C.good.n; j++) for(int i = 0; i < C.good.m; i++) s += " XU x" + std::to_string(j) + " C" + std::to_string(i) + "\n";
         return s + "ENDATA\n";
      }});
      E.push_back(Item{BASIS, V_NAMES, "basis-doc-allUL", "every column at upper", []()
      {
         std::string s = "NAME b\n";
         for(int j = 0; j < C.good.n; j++) s += " UL x" + std::to_string(j) + "\n";
         return s + "ENDATA\n";
      }});
   }
   {
      // settings grammar: type x value form x separator form
      static const char* types[] = {"bool:lifting", "int:iterlimit", "real:feastol", "uint:random_seed", "rational:foo", "int:nosuchparam", "bool:nosuch", "real:nosuch", "uint:other", "string:x", "int:simplifier", "real:timelimit", "int:verbosity", "int:readmode", "int:solvemode", "int:syncmode", "int:objsense"};
      static const char* vals[] = {"1", "0", "true", "FALSE", "t", "abc", "", "-1", "99999999999999999999", "1e400", "-1e-400", "nan", "inf", "2", "3", "1.5", "0x10", "+", "-", ".", "1 2", "1#c", "7 # c"};
      static const char* forms[] = {"%T = %V", "%T=%V", "%T %V", "%T = = %V", " \t%T\t=\t%V\r", "%T : %V", "%T =", "= %V", "%T = %V extra", "%T = %V\t \r"};
      int q = 0;
      for(auto t : types) for(auto v : vals) for(auto f : forms)
            {
               q++;
               if(q % 3 != 0 && std::string(f) != "%T = %V") continue;       // thin the cross product, keep the canonical form complete
               std::string line = f;
               size_t p;
               while((p = line.find("%T")) != std::string::npos) line.replace(p, 2, t);
               while((p = line.find("%V")) != std::string::npos) line.replace(p, 2, v);
               std::string ty = t;
               if(line.find(':') != std::string::npos && q % 7 == 0) line.replace(line.find(':'), 1, " : ");
               for(int en = SET_FILE; en <= SET_STR; en++)
                  E.push_back(Item{en, 0, "settings-grammar", "settings line", [line, en]()
               {
                  return en == SET_FILE ? "# header\n" + line + "\nint:iterlimit = 50\n" + line + "\n" : line;
               }});
            }
      static const char* whole[] = {"", "\n", "\n\n\n", "#", "# only comment", ":", "=", ":=", "int", "int:", "int:iterlimit", "int:iterlimit=", "int iterlimit = 4", "\r\n", "int:iterlimit = 4\r\nbool:lifting = true\r\n",
                                    "int:iterlimit = 4", "\xef\xbb\xbfint:iterlimit = 4\n", "int:iterlimit = 4\n\xff\xfe\n", "real:feastol = 1e-7\nreal:feastol = 0\nreal:opttol = 0\n", "int:simplifier = 2\nint:solvemode = 2\nint:syncmode = 1\n"
                                   };
      for(size_t w = 0; w < sizeof(whole) / sizeof(whole[0]); w++) for(int en = SET_FILE; en <= SET_STR; en++)
            E.push_back(Item{en, 0, "settings-whole", "whole settings document " + std::to_string(w), [w]()
         {
            return std::string(whole[w]);
         }});
   }
   // ---- G. gz-compressed variants (written with zlib)
   for(auto& s : P.all)
   {
      if(!(s.name == "afiro.lp" || s.name == "galenet.mps" || s.name == "hand.lp" || s.name == "hand.mps" || s.name == "writer-names.bas" || s.name == "hand.set" || s.name == "afiro.mps")) continue;
      const Seed* sp = &s;
      addFor(s.kind, nextVar() | V_GZ, "gz-full", s.name + " gzip", [sp]()
      {
         return sp->bytes;
      });
      addFor(s.kind, nextVar() | V_GZ | V_ZLIB, "gz-zlibfmt", s.name + " zlib format", [sp]()
      {
         return sp->bytes;
      });
      for(int q = 0; q < 10; q++)
      {
         addFor(s.kind, nextVar(), "gz-truncated", s.name + " gzip truncated at " + std::to_string(q) + "/10", [sp, q]()
         {
            std::string z = gzipBytes(sp->bytes);
            return z.substr(0, z.size() * (size_t)q / 10 + (q == 0 ? 3 : 0));
         });
         addFor(s.kind, nextVar(), "gz-corrupt", s.name + " gzip with a flipped byte at " + std::to_string(q) + "/10", [sp, q]()
         {
            std::string z = gzipBytes(sp->bytes);
            size_t p = q == 0 ? 3 : q == 9 ? z.size() - 5 : z.size() * (size_t)q / 10;
            if(p < z.size()) z[p] = (char)(z[p] ^ 0x5a);
            return z;
         });
      }
      addFor(s.kind, nextVar(), "gz-trailing", s.name + " gzip + trailing garbage", [sp]()
      {
         return gzipBytes(sp->bytes) + "garbage after the stream\n";
      });
      addFor(s.kind, nextVar(), "gz-concat", s.name + " two gzip members", [sp]()
      {
         std::string h = sp->bytes.substr(0, sp->bytes.size() / 2);
         size_t nl = h.rfind('\n');
         if(nl != std::string::npos) h = h.substr(0, nl + 1);
         return gzipBytes(h) + gzipBytes(sp->bytes.substr(h.size()));
      });
      addFor(s.kind, nextVar(), "gz-fakemagic", s.name + " text behind a gzip magic", [sp]()
      {
         return std::string("\x1f\x8b") + sp->bytes;
      });
      addFor(s.kind, nextVar(), "gz-fakezlib", s.name + " text behind a zlib magic", [sp]()
      {
         return std::string("\x78\x9c") + sp->bytes;
      });
   }
}

// ---------------------------------------------------------------- structure-aware mutator
static inline const std::vector<std::string>& dictFor(char kind)
{
   static const std::vector<std::string> lp = {"Maximize", "Minimize", "max", "min", "Subject To", "st", "s.t.", "such that", "Bounds", "bound", "Generals", "gen", "Binaries", "bin", "int", "End", "free", "inf", "+inf", "-inf", "infinity", ":", "<=", ">=", "=", "=<", "=>", "<", ">", "+", "-", "\\", "lazy constraints", "obj:", "c1:", "x1", "x2", "\n"};
   static const std::vector<std::string> mps = {"NAME", "ROWS", "COLUMNS", "RHS", "RANGES", "BOUNDS", "ENDATA", "OBJSENSE", "OBJSEN", "OBJNAME", "MAX", "MIN", "N", "L", "G", "E", "UP", "LO", "FX", "FR", "MI", "PL", "BV", "LI", "UI", "'MARKER'", "'INTORG'", "'INTEND'", "MARKER", "$", "*", "RNG", "BND", "Inf", "-Inf", "\n", "\n ", "\nENDATA\n"};
   static const std::vector<std::string> bas = {"XU", "XL", "UL", "LL", "BS", "NAME", "ENDATA", "x0", "x1", "x2", "C0", "C1", "C2", "\n", "\n "};
   static const std::vector<std::string> set = {"bool:", "int:", "real:", "uint:", "rational:", "random_seed", "=", ":", "true", "false", "#", "iterlimit", "feastol", "opttol", "timelimit", "verbosity", "simplifier", "lifting", "objsense", "readmode", "solvemode", "syncmode", "\n", " "};
   return kind == 'l' ? lp : kind == 'm' ? mps : kind == 'b' ? bas : set;
}
static inline const std::vector<std::string>& nastyNumbers()
{
   static const std::vector<std::string> n = {"0", "-0", "-0.0", "1e308", "1e309", "-1e309", "1e-400", "1e999999", "4.9e-324", "nan", "NaN", "inf", "-inf", "Infinity", "1/0", "1/3", "-5/7", "0x10", "1e", "e5", ".", "..", "1.2.3", "+", "-", "--1", "+-+1", "99999999999999999999", "2147483648", "-2147483649", "4294967296", "18446744073709551616", "1e100", "1e101", "-1e100", ".5", "5.", "1d5", "1,5", "1e+", "1e-", "0/0", "1/", "/1"};
   return n;
}
static inline std::vector<std::string> tokenise(const std::string& s)
{
   std::vector<std::string> t;
   size_t i = 0;
   while(i < s.size())
   {
      bool sp = s[i] == ' ' || s[i] == '\t' || s[i] == '\n' || s[i] == '\r';
      size_t j = i;
      while(j < s.size() && ((s[j] == ' ' || s[j] == '\t' || s[j] == '\n' || s[j] == '\r') == sp) && (!sp || s[j] == s[i])) j++;
      t.push_back(s.substr(i, j - i));
      i = j;
   }
   return t;
}
static inline std::string mutate(Rng& g, const std::string& seed, char kind)
{
   std::string cur = seed;
   int nm = g.range(1, 5);
   for(int it = 0; it < nm; it++)
   {
      int op = g.range(0, 13);
      if(op <= 7)
      {
         std::vector<std::string> t = tokenise(cur);
         if(t.empty()) t.push_back("");
         size_t a = (size_t)(g.next() % t.size()), b = (size_t)(g.next() % t.size());
         const std::string& w = g.chance(0.5) ? g.pick(dictFor(kind)) : g.pick(nastyNumbers());
         switch(op)
         {
         case 0: t[a] = w; break;
         case 1: t.insert(t.begin() + (long)a, w + " "); break;
         case 2: t.erase(t.begin() + (long)a); break;
         case 3: t.insert(t.begin() + (long)a, t[a]); break;
         case 4: std::swap(t[a], t[b]); break;
         case 5: t[a] = t[b]; break;
         case 6: t[a] += w; break;
         default:
            if(!t[a].empty()) t[a] = t[a].substr(0, (size_t)(g.next() % t[a].size()));
            break;
         }
         cur.clear();
         for(auto& x : t) cur += x;
      }
      else if(op <= 10)
      {
         std::vector<std::string> ls = splitLines(cur);
         if(ls.empty()) ls.push_back("\n");
         size_t a = (size_t)(g.next() % ls.size()), b = (size_t)(g.next() % ls.size());
         if(op == 8) ls.insert(ls.begin() + (long)a, ls[b]);
         else if(op == 9) ls.erase(ls.begin() + (long)a);
         else std::swap(ls[a], ls[b]);
         cur = joinS(ls);
      }
      else if(op == 11)
      {
         if(!cur.empty()) cur = cur.substr(0, (size_t)(g.next() % cur.size()));
      }
      else if(op == 12)
      {
         if(!cur.empty())
         {
            size_t p = (size_t)(g.next() % cur.size());
            int w = g.range(0, 3);
            if(w == 0) cur[p] = (char)(cur[p] ^ (1 << g.range(0, 7)));
            else if(w == 1) cur[p] = (char)g.range(0, 255);
            else if(w == 2) cur.insert(p, 1, g.chance(0.3) ? '\0' : (char)g.range(0, 255));
            else cur[p] = "\0\n\r\t \xff:=<>+-"[g.range(0, 11)];
         }
      }
      else
      {
         if(!cur.empty())
         {
            size_t p = (size_t)(g.next() % cur.size()), l = (size_t)g.range(1, 40);
            std::string chunk = cur.substr(p, l);
            int rep = g.range(2, 30);
            std::string ins;
            for(int r = 0; r < rep; r++) ins += chunk;
            cur.insert(p, ins);
         }
      }
      if(cur.size() > 200000) cur.resize(200000);
   }
   return cur;
}

} // namespace c13
