"""Per-property configuration of the checks: harness, flavours, case budgets, mandatory observation minima."""

FLAVOURS = {
    'asan': dict(cxx='g++', slow=4,
                 cflags=['-O1', '-g1', '-DNDEBUG', '-fno-omit-frame-pointer', '-fsanitize=address,undefined', '-fno-sanitize-recover=all'],
                 ldflags=['-fsanitize=address,undefined', '-rdynamic']),
    'opt': dict(cxx='g++', slow=1, cflags=['-O2', '-g1', '-DNDEBUG'], ldflags=['-rdynamic']),
    'tsan': dict(cxx='g++', slow=10, cflags=['-O1', '-g1', '-DNDEBUG', '-fsanitize=thread'], ldflags=['-fsanitize=thread', '-rdynamic']),
    'dbg': dict(cxx='g++', slow=3, cflags=['-O0', '-g1'], ldflags=['-rdynamic']),
}

HARNESSES = {
    'h_solve': dict(src='h_solve.cpp', insts=['inst_soplex']),
}


def two_flavour(harness, quick_asan, quick_opt, th_asan, th_opt, **kw):
    def stages(tier):
        if tier == 'thorough':
            return [dict(name='asan', harness=harness, flavour='asan', cases=th_asan, **kw),
                    dict(name='opt', harness=harness, flavour='opt', cases=th_opt, **kw)]
        return [dict(name='asan', harness=harness, flavour='asan', cases=quick_asan, **kw),
                dict(name='opt', harness=harness, flavour='opt', cases=quick_opt, **kw)]
    return stages


COMMON_ASSUME = [
    'gate builds use -DNDEBUG (release configuration); sanitizers (ASan+UBSan) replace the assertions',
    'reference truth comes from planted certificates or an independent exact simplex whose certificate is re-checked exactly',
    'tolerance policy of DESIGN 3.4: alarm only beyond 10x the tolerance (relative), rounding-level quantities beyond 1e-8 relative',
    'build features: Boost, GMP, MPFR, zlib; no PaPILO',
]

HOOK_COMMITS = []
NOT_APPLICABLE = []

SAN = 'g++ AddressSanitizer+UndefinedBehaviorSanitizer gate build plus -O2 volume build of the real solver'

PROPS = {
    'C01': dict(
        level='exploration',
        level_text='Every OPTIMAL answer of thousands of seeded (LP, configuration) pairs is judged element by element in exact rational '
                   'arithmetic against the LP as entered; completeness is judged against planted or independently certified optima. '
                   'Sampling of an infinite input x configuration space: held-on-what-was-observed, not a proof.',
        level_note='trusts GMP arithmetic, the exact re-check of reference certificates, and the tolerance policy (alarm beyond 10x tolerance)',
        technique='runtime monitoring: exact-arithmetic certificate oracle over executions of the sanitizer-instrumented solver; pairwise-covering + random configurations',
        stages=two_flavour('h_solve', 1500, 6000, 30000, 150000),
        minima=lambda t: {'c01.optimal_checked': 500, 'c01.complete_checked': 300, 'distinct:cfg': 50},
        eval_counter='cases', distinct_set='nontrivial',
        rule='case k -> (LP family, seeded LP, configuration from the pairwise covering array or random); distinct = hash(LP structural '
             'signature x configuration key); non-trivial = the solve performed >= 1 simplex iteration or presolve removed the LP',
        assumptions=COMMON_ASSUME,
    ),
    'C02': dict(
        level='exploration',
        level_text='Verdicts of seeded solves are compared with planted / independently certified truth; every offered Farkas vector and '
                   'primal ray is checked exactly (orientation-free interval disjointness, recession-cone membership). Sampling, not proof.',
        level_note='trusts GMP arithmetic and the exact re-check of reference certificates; float noise floor 1e-9 relative on rays/Farkas',
        technique='runtime monitoring: exact Farkas/ray/verdict oracles over executions under ASan+UBSan; ensure-ray x simplifier cross',
        stages=two_flavour('h_solve', 1500, 6000, 30000, 120000),
        minima=lambda t: {'c02.farkas_checked': 100, 'c02.ray_checked': 50, 'c02.verdict_checked': 800},
        eval_counter='cases', distinct_set='nontrivial',
        rule='case k -> (planted infeasible/unbounded/both/optimal or arbitrary LP, configuration, ensure-ray, simplifier); distinct = '
             'hash(LP signature x configuration key); non-trivial = solver returned a definite status',
        assumptions=COMMON_ASSUME,
    ),
}
