"""Per-property configuration of the checks: harness, flavours, case budgets, mandatory observation minima."""

FLAVOURS = {
    'asan': dict(cxx='g++', slow=4,
                 cflags=['-O1', '-g1', '-DNDEBUG', '-fno-omit-frame-pointer', '-fsanitize=address,undefined', '-fno-sanitize-recover=all',
                         '-fno-sanitize=enum,bool,pointer-overflow'],   # bool/enum: copies of members that are not yet initialised (e.g. operator= before the first solve) are benign; pointer-overflow: null+offset pointers that are formed but never dereferenced; enum: copies of not-yet-initialised VarStatus slots in unsimplify are benign noise
                 ldflags=['-fsanitize=address,undefined', '-rdynamic']),
    'opt': dict(cxx='g++', slow=1, cflags=['-O2', '-g1', '-DNDEBUG'], ldflags=['-rdynamic']),
    'tsan': dict(cxx='g++', slow=10, cflags=['-O1', '-g1', '-DNDEBUG', '-fsanitize=thread'], ldflags=['-fsanitize=thread', '-rdynamic']),
    'fuzz': dict(cxx='clang++', slow=4,
                 cflags=['-O1', '-g', '-DNDEBUG', '-fno-omit-frame-pointer', '-fsanitize=fuzzer-no-link,address,undefined', '-fno-sanitize-recover=all',
                         '-fno-sanitize=object-size,enum,bool,pointer-overflow'],
                 ldflags=['-fsanitize=fuzzer,address,undefined', '-rdynamic']),
    'dbg': dict(cxx='g++', slow=3, cflags=['-O0', '-g1'], ldflags=['-rdynamic']),
}



def two_flavour(harness, quick_asan, quick_opt, th_asan, th_opt, **kw):
    def stages(tier):
        if tier == 'thorough':
            return [dict(name='asan', harness=harness, flavour='asan', cases=th_asan, **kw),
                    dict(name='opt', harness=harness, flavour='opt', cases=th_opt, **kw)]
        return [dict(name='asan', harness=harness, flavour='asan', cases=quick_asan, **kw),
                dict(name='opt', harness=harness, flavour='opt', cases=quick_opt, **kw)]
    return stages


def memcheck_stage(harness, quick, thorough, **kw):
    """valgrind memcheck over the non-sanitized build: uninitialised-value use (invisible to ASan/UBSan) and invalid accesses"""
    def st(tier):
        return dict(name='memcheck', harness=harness, flavour='opt', cases=thorough if tier == 'thorough' else quick, memcheck=True,
                    chunks_per_job=1 if tier != 'thorough' else 2, offset=7000, **kw)
    return st


COMMON_ASSUME = [
    'gate builds use -DNDEBUG (release configuration); sanitizers (ASan+UBSan) replace the assertions',
    'reference truth comes from planted certificates or an independent exact simplex whose certificate is re-checked exactly',
    'tolerance policy of DESIGN 3.4: alarm only beyond 10x the tolerance (relative), rounding-level quantities beyond 1e-8 relative',
    'build features: Boost, GMP, MPFR, zlib; no PaPILO',
]

HOOK_COMMITS = []
NOT_APPLICABLE = []
HARNESSES = {}
PROPS = {}


def _load_fragments():
    import glob, os, importlib.util
    here = os.path.dirname(os.path.abspath(__file__))
    for f in sorted(glob.glob(os.path.join(here, 'propdefs', '*.py'))):
        spec = importlib.util.spec_from_file_location('propdefs_' + os.path.basename(f)[:-3], f)
        m = importlib.util.module_from_spec(spec)
        spec.loader.exec_module(m)
        HARNESSES.update(getattr(m, 'HARNESSES', {}))
        PROPS.update(getattr(m, 'PROPS', {}))
        NOT_APPLICABLE.extend(getattr(m, 'NOT_APPLICABLE', []))
        HOOK_COMMITS.extend(getattr(m, 'HOOK_COMMITS', []))


_load_fragments()
