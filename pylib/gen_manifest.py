#!/usr/bin/env python3
"""Regenerates MANIFEST.json from pylib/props.py (single source of truth for the registered checks)."""
import json, os, sys
HERE = os.path.dirname(os.path.abspath(__file__))
sys.path.insert(0, HERE)
from props import PROPS, NOT_APPLICABLE, HOOK_COMMITS  # noqa
V = os.path.dirname(HERE)
checks = []
for pid in sorted(PROPS):
    P = PROPS[pid]
    checks.append(dict(
        property_id=pid,
        quick_cmd='./vcheck %s --tier quick' % pid,
        thorough_cmd='./vcheck %s --tier thorough' % pid,
        evidence_file='/verif/evidence/%s.json' % pid,
        replay_cmd_template='./vcheck %s --replay {path}' % pid,
        engine=P.get('engine', 'vcheck'),
        level_claimed=dict(category=P['level'], text=P['level_text'], design_ref=P.get('design_ref', 'DESIGN.md section 4 (' + pid + ')')),
        level_note=P['level_note'],
        technique=P['technique'],
    ))
man = dict(
    version=1,
    setup_cmd='./vcheck setup',
    hooks=dict(guard='SOPLEX_VERIF', enable='harnesses are compiled by ./vcheck from /repo/src with -DSOPLEX_VERIF (see pylib/core.py Builder.flags)',
               baseline_off_cmd='cmake --build /repo/_build && ctest --test-dir /repo/_build -j8 --timeout 900',
               source_commits=HOOK_COMMITS, add_only=True),
    engines=[dict(name='vcheck', path='/verif/vcheck', serves_properties=sorted(PROPS),
                  kind_free_text='python driver: content-hashed rebuild of harnesses from /repo working tree (g++ ASan+UBSan / -O2 / TSan, clang libFuzzer), '
                  'sharded execution with crash isolation, event-log monitors, known-findings matching, evidence writer')],
    checks=checks,
    notes='Runtime monitoring and sanitizers only. See DESIGN.md; known_findings.json (same content in line format: known_findings.txt) lists the genuine defects of the pinned tree that are recorded rather than repaired (status open) and the repaired ones (status fixed, with the fix: commit).',
    not_applicable=NOT_APPLICABLE,
)
json.dump(man, open(os.path.join(V, 'MANIFEST.json'), 'w'), indent=1)
print('wrote MANIFEST.json with', len(checks), 'checks')
