#!/usr/bin/env python3
"""Development aid for C13: shrink an input file while `h_read --sub file` keeps producing the same violation / crash key.
  c13_minimize.py <h_read binary> <entry 0..6> <variant> <input file> <key substring> <output file>"""
import sys, os, subprocess, tempfile, json, re
sys.path.insert(0, os.path.dirname(os.path.abspath(__file__)))
import core

binp, entry, variant, inp, want, outp = sys.argv[1:7]
tmp = tempfile.mkdtemp(dir=os.environ.get('TMPDIR', '/var/tmp'))
env = core.san_env('asan', tmp)


def bad(data):
    p = os.path.join(tmp, 'cand')
    open(p, 'wb').write(data)
    try:
        r = subprocess.run([binp, '--prop', 'C13', '--sub', 'file', '--entry', entry, '--variant', variant, '--file', p, '--tmpdir', tmp, '--from', '0', '--to', '1'],
                           stdout=subprocess.PIPE, stderr=subprocess.PIPE, env=env, timeout=120)
    except subprocess.TimeoutExpired:
        return False
    keys = [json.loads(l).get('key', '') for l in r.stdout.decode(errors='replace').splitlines() if l.startswith('{"ev":"viol"')]
    if r.returncode != 0:
        keys.append('crash:' + core.crash_key(r.stderr.decode(errors='replace'), r.returncode))
    return any(want in k for k in keys)


data = open(inp, 'rb').read()
assert bad(data), 'input does not reproduce ' + want
for unit in ('line', 'byte'):
    parts = data.splitlines(keepends=True) if unit == 'line' else [bytes([b]) for b in data]
    n = 2
    while len(parts) >= 2:
        chunk = max(1, len(parts) // n)
        reduced = False
        for i in range(0, len(parts), chunk):
            cand = parts[:i] + parts[i + chunk:]
            if cand and bad(b''.join(cand)):
                parts, reduced = cand, True
                n = max(n - 1, 2)
                break
        if not reduced:
            if chunk == 1:
                break
            n = min(n * 2, len(parts))
    data = b''.join(parts)
    if unit == 'line' and len(data) > 600:
        break
open(outp, 'wb').write(data)
print('minimised to', len(data), 'bytes ->', outp)
