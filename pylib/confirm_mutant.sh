#!/bin/bash
# Development aid (not part of any registered command): confirms a sub-agent's seeded change in its scratch worktree.
# usage: confirm_mutant.sh <worktree>   (expects <worktree>/patch.diff applied to the tree, <worktree>/demo.cpp)
# Re-builds the worktree with the change, runs the 468 tests, compiles the demonstration with and without the change and
# writes <worktree>/confirm.txt (last line CONFIRMED or NOT-CONFIRMED).
W=$1
SRCS=$(echo $W/src/soplex/{didxset,idxset,mpsinput,nameset,spxdefines,spxgithash,spxid,spxout,usertimer,wallclocktimer}.cpp)
EXTRA=""
grep -q soplex_interface.h $W/demo.cpp && EXTRA="$W/src/soplex_interface.cpp"
SAN=""
grep -q "fsanitize=address" $W/notes.md 2>/dev/null && SAN="-fsanitize=address -g"
cc() { g++ -std=gnu++14 -O0 -DNDEBUG $SAN -I$W/src -I$W/_build $W/demo.cpp $SRCS $EXTRA -lgmp -lmpfr -lz -o $1 2>&1 | tail -3; }
cd $W || exit 2
git -C $W diff --quiet -- src && { echo "patch not applied in $W" ; exit 2; }
git -C $W diff -- src > $W/patch.check.diff
cmake -G Ninja -S $W -B $W/_build -DCMAKE_BUILD_TYPE=Release -DPAPILO=off >/dev/null
cmake --build $W/_build -j8 2>&1 | tail -1
ctest --test-dir $W/_build -j8 --timeout 900 2>&1 | grep "tests passed" > $W/ctest.summary
cat $W/ctest.summary
TP=0; grep -q "100% tests passed, 0 tests failed out of 468" $W/ctest.summary && TP=1
cc $W/demo_mut_c; ( cd $W; timeout 300 ./demo_mut_c >/dev/null 2>$W/demo_mut.err ); EM=$?
git -C $W apply -R $W/patch.check.diff || exit 2
cc $W/demo_base_c; ( cd $W; timeout 300 ./demo_base_c >/dev/null 2>&1 ); EB=$?
git -C $W apply $W/patch.check.diff || exit 2
echo "tests_pass_with_mutant=$TP demo_exit_mutant=$EM demo_exit_baseline=$EB" > $W/confirm.txt
if [ $TP = 1 ] && [ $EM != 0 ] && [ $EB = 0 ]; then echo CONFIRMED >> $W/confirm.txt; else echo NOT-CONFIRMED >> $W/confirm.txt; fi
cp $W/patch.check.diff $W/patch.diff
cat $W/confirm.txt
