#!/usr/bin/env python3
"""vcheck -- driver of the runtime-monitoring checks for scipopt/soplex (see DESIGN.md section 2.4).

  vcheck C07 [--tier quick|thorough] [--seed N] [--jobs N]     run the check of one property
  vcheck C07 --replay PATH                                      re-run one recorded case, print its events
  vcheck setup                                                  pre-build every harness flavour for the current /repo tree
  vcheck build C07                                              build only

Exit 0: property held on everything explored (KNOWN-FINDING lines possible); exit 1: at least one
`VIOLATION property=<id> replay=<path>` line; exit 2: harness failure / mandatory observations missing.
"""
import sys, os, json, hashlib, subprocess, time, re, shutil, signal, threading, concurrent.futures, glob

VERIF = os.path.dirname(os.path.dirname(os.path.abspath(__file__)))
REPO = os.environ.get('VERIF_REPO', '/repo')
CACHE = os.path.join(VERIF, '.cache')
from props import PROPS, HARNESSES, FLAVOURS   # noqa: E402

SUPPORT_CPP = ['didxset', 'idxset', 'mpsinput', 'nameset', 'spxdefines', 'spxgithash', 'spxid', 'spxout',
               'usertimer', 'wallclocktimer']
NCPU = os.cpu_count() or 4


def log(*a):
    print('[vcheck]', *a, file=sys.stderr, flush=True)


# ------------------------------------------------------------------ hashing / build
def sha_files(paths, extra=''):
    h = hashlib.sha256()
    h.update(extra.encode())
    for p in sorted(paths):
        h.update(p.encode())
        try:
            with open(p, 'rb') as f:
                h.update(f.read())
        except OSError:
            h.update(b'<missing>')
    return h.hexdigest()[:20]


def repo_src_files():
    out = []
    for root, _, files in os.walk(os.path.join(REPO, 'src')):
        for f in files:
            if f.endswith(('.h', '.hpp', '.cpp', '.in', '.c')):
                out.append(os.path.join(root, f))
    return out


def gen_config(incdir):
    os.makedirs(os.path.join(incdir, 'soplex'), exist_ok=True)
    maj = mnr = pat = '0'
    try:
        cm = open(os.path.join(REPO, 'CMakeLists.txt')).read()
        maj = re.search(r'set\(SOPLEX_VERSION_MAJOR (\d+)', cm).group(1)
        mnr = re.search(r'set\(SOPLEX_VERSION_MINOR (\d+)', cm).group(1)
        pat = re.search(r'set\(SOPLEX_VERSION_PATCH (\d+)', cm).group(1)
    except Exception:
        pass
    txt = ('#ifndef __SPXCONFIG_H__\n#define __SPXCONFIG_H__\n#define SOPLEX_BUILD_TYPE "Release"\n'
           '#define SOPLEX_VERSION_MAJOR %s\n#define SOPLEX_VERSION_MINOR %s\n#define SOPLEX_VERSION_PATCH %s\n'
           '#define SOPLEX_WITH_BOOST\n#define SOPLEX_WITH_GMP\n#define SOPLEX_WITH_MPFR\n#define SOPLEX_WITH_ZLIB\n#endif\n'
           % (maj, mnr, pat))
    p = os.path.join(incdir, 'soplex', 'config.h')
    if not os.path.exists(p) or open(p).read() != txt:
        open(p, 'w').write(txt)
    if not os.path.exists(os.path.join(REPO, 'src', 'soplex', 'git_hash.cpp')):
        open(os.path.join(incdir, 'soplex', 'git_hash.cpp'), 'w').write('#define SPX_GITHASH "verif"\n')


class Builder:
    def __init__(self):
        self.srchash = sha_files(repo_src_files())
        self.root = os.path.join(CACHE, 'build', self.srchash)
        self.inc = os.path.join(self.root, 'inc')
        gen_config(self.inc)
        self.lock = threading.Lock()
        self.jobs = {}   # target path -> Future
        self.pool = concurrent.futures.ThreadPoolExecutor(max_workers=NCPU)
        self.failed = []

    def _run(self, cmd, target, logf):
        t0 = time.time()
        tmp = target + '.tmp%d' % os.getpid()
        cmd = [c if c != '@OUT@' else tmp for c in cmd]
        with open(logf, 'w') as lf:
            lf.write(' '.join(cmd) + '\n')
            lf.flush()
            r = subprocess.run(cmd, stdout=lf, stderr=subprocess.STDOUT)
        if r.returncode != 0:
            self.failed.append((target, logf))
            try:
                os.unlink(tmp)
            except OSError:
                pass
            return False
        os.replace(tmp, target)
        log('built %s (%.0fs)' % (os.path.relpath(target, CACHE), time.time() - t0))
        return True

    def submit(self, target, cmd, deps=()):
        with self.lock:
            if target in self.jobs:
                return self.jobs[target]
            if os.path.exists(target):
                f = concurrent.futures.Future()
                f.set_result(True)
                self.jobs[target] = f
                return f
            os.makedirs(os.path.dirname(target), exist_ok=True)
            depf = list(deps)

            def work():
                for d in depf:
                    if not d.result():
                        return False
                return self._run(cmd, target, target + '.log')
            f = self.pool.submit(work)
            self.jobs[target] = f
            return f

    def flvdir(self, flv):
        fl = FLAVOURS[flv]
        return flv + '.' + hashlib.sha256((fl['cxx'] + ' '.join(fl['cflags']) + ' '.join(fl['ldflags'])).encode()).hexdigest()[:8]

    def flags(self, flv):
        fl = FLAVOURS[flv]
        common = ['-std=gnu++14', '-ffp-contract=off', '-DSOPLEX_VERIF', '-I' + os.path.join(REPO, 'src'), '-I' + self.inc,
                  '-I' + os.path.join(VERIF, 'vlib'), '-w']
        return fl['cxx'], fl['cflags'] + common, fl['ldflags']

    def lib_objects(self, flv, insts, extra_cpp=(), extra_defs=()):
        cxx, cf, _ = self.flags(flv)
        d = os.path.join(self.root, self.flvdir(flv), 'lib')
        futs, objs = [], []
        for s in SUPPORT_CPP:
            o = os.path.join(d, s + '.o')
            futs.append(self.submit(o, [cxx] + cf + ['-c', os.path.join(REPO, 'src', 'soplex', s + '.cpp'), '-o', '@OUT@']))
            objs.append(o)
        for inst in insts:
            src = os.path.join(VERIF, 'inst', inst + '.cpp')
            ih = sha_files([src, os.path.join(VERIF, 'vlib', 'sxinc.hpp')])
            o = os.path.join(d, '%s.%s.o' % (inst, ih))
            futs.append(self.submit(o, [cxx] + cf + ['-c', src, '-o', '@OUT@']))
            objs.append(o)
        for e in extra_cpp:
            o = os.path.join(d, os.path.basename(e).replace('.cpp', '') + '.x.o')
            futs.append(self.submit(o, [cxx] + cf + ['-c', os.path.join(REPO, e), '-o', '@OUT@']))
            objs.append(o)
        return futs, objs

    def harness(self, name, flv):
        """returns (future, binary path)"""
        H = HARNESSES[name]
        cxx, cf, ld = self.flags(flv)
        src = os.path.join(VERIF, 'harness', H['src'])
        vl = glob.glob(os.path.join(VERIF, 'vlib', '*.hpp')) + [src] + [os.path.join(VERIF, p) for p in H.get('extra_src', [])]
        hh = sha_files(vl, ' '.join(cf) + ' '.join(H.get('defs', [])))
        d = os.path.join(self.root, self.flvdir(flv), 'h', name + '.' + hh)
        futs, objs = self.lib_objects(flv, H.get('insts', ['inst_soplex']), H.get('repo_cpp', []))
        ho = os.path.join(d, name + '.o')
        futs.append(self.submit(ho, [cxx] + cf + H.get('defs', []) + ['-c', src, '-o', '@OUT@']))
        objs.append(ho)
        for p in H.get('extra_src', []):
            eo = os.path.join(d, os.path.basename(p) + '.o')
            futs.append(self.submit(eo, [cxx] + cf + H.get('defs', []) + ['-c', os.path.join(VERIF, p), '-o', '@OUT@']))
            objs.append(eo)
        binp = os.path.join(d, name)
        f = self.submit(binp, [cxx] + ld + objs + ['-lgmp', '-lmpfr', '-lz', '-lpthread', '-ldl', '-o', '@OUT@'], deps=futs)
        return f, binp

    def prune(self, keep=6):
        bd = os.path.join(CACHE, 'build')
        try:
            ds = sorted([os.path.join(bd, d) for d in os.listdir(bd)], key=os.path.getmtime, reverse=True)
        except OSError:
            return
        for d in ds[keep:]:
            if d != self.root and time.time() - os.path.getmtime(d) > 3 * 3600:
                shutil.rmtree(d, ignore_errors=True)
        try:
            os.utime(self.root)
        except OSError:
            pass


# ------------------------------------------------------------------ known findings
def load_known():
    out = []
    for p in [os.path.join(VERIF, 'known_findings.json')]:      # the one committed list; pylib/gen_known.py merges known_findings.d/*.json into it
        try:
            out += json.load(open(p)).get('findings', [])
        except Exception as e:
            log('cannot read', p, e)
    return out


def match_known(known, prop, key):
    for k in known:
        kp = k.get('property')
        if k.get('status') != 'open' or not (kp == prop or kp == '*' or (isinstance(kp, list) and prop in kp)):
            continue
        pat = k.get('key', '')
        # keys are stored without the property prefix when an entry serves several properties
        bare = key[len(prop) + 1:] if key.startswith(prop + ':') else key
        if pat == key or pat == bare or (k.get('regex') and (re.fullmatch(pat, key) or re.fullmatch(pat, bare))):
            return k
    return None


# ------------------------------------------------------------------ sanitizer report parsing
FRAME_RE = re.compile(r'#\d+ 0x[0-9a-f]+ in (.+?) (\(?/\S+?\)?)(?::\d+)*$')


def clean_fn(fn):
    # strip template args and parameter lists
    out, depth = '', 0
    for ch in fn:
        if ch in '<(':
            depth += 1
        elif ch in '>)':
            depth -= 1
        elif depth == 0:
            out += ch
    out = out.replace('soplex::', '').strip()
    out = re.sub(r'\s+const$', '', out)
    return out.split(' ')[-1] if ' ' in out else out


def crash_key(stderr_text, rc):
    """stable key for a crashed worker from its stderr (sanitizer report) and return code"""
    kind = None
    m = re.search(r'ERROR: (AddressSanitizer|LeakSanitizer|ThreadSanitizer): ([\w\-]+)', stderr_text)
    if m:
        kind = 'asan:' + m.group(2)
        if m.group(1) == 'LeakSanitizer':
            kind = 'lsan:leak'
    m2 = re.search(r'runtime error: (.+)', stderr_text)
    if not kind and m2:
        msg = m2.group(1)
        msg = re.sub(r'0x[0-9a-f]+', 'ADDR', msg)
        msg = re.sub(r'-?\d+(\.\d+)?(e[+-]?\d+)?', 'N', msg)
        kind = 'ubsan:' + msg[:60].strip()
    if not kind and 'terminate called' in stderr_text:
        m3 = re.search(r"terminate called after throwing an instance of '([^']+)'", stderr_text)
        kind = 'exception:' + (m3.group(1) if m3 else 'unknown')
    if not kind:
        if rc < 0:
            try:
                kind = 'signal:' + signal.Signals(-rc).name
            except Exception:
                kind = 'signal:%d' % -rc
        else:
            kind = 'exit:%d' % rc
    frames = []
    for line in stderr_text.splitlines():
        m = FRAME_RE.search(line.strip())
        if m and ('/src/soplex' in m.group(2) or '/repo/src' in m.group(2) or m.group(1).startswith('soplex::') or ' soplex::' in m.group(1)
                  or m.group(1).startswith('SoPlex_')):
            fn = clean_fn(m.group(1))
            if fn and fn not in frames:
                frames.append(fn)
            if len(frames) >= 2:
                break
    return kind + ':' + '|'.join(frames)


# ------------------------------------------------------------------ running
class Shard:
    def __init__(self, flv, binp, a, b):
        self.flv, self.bin, self.a, self.b = flv, binp, a, b


def san_env(flv, logdir):
    env = dict(os.environ)
    env['ASAN_OPTIONS'] = 'abort_on_error=1:detect_leaks=1:leak_check_at_exit=0:allocator_may_return_null=1:quarantine_size_mb=8:handle_abort=1:detect_stack_use_after_return=0'
    env['UBSAN_OPTIONS'] = 'print_stacktrace=1:halt_on_error=1'
    env['LSAN_OPTIONS'] = 'exitcode=23'
    env['TSAN_OPTIONS'] = 'halt_on_error=0:second_deadlock_stack=1:exitcode=0:log_path=%s' % os.path.join(logdir, 'tsan')
    return env


_LIVE = set()
_LIVE_LOCK = threading.Lock()


try:
    import ctypes
    _LIBC = ctypes.CDLL('libc.so.6', use_errno=True)
except Exception:
    _LIBC = None


def _pdeathsig():
    # children die with the driver even when the driver is killed with SIGKILL (no orphaned workers spinning for hours)
    if _LIBC is not None:
        _LIBC.prctl(1, 9)


def _kill_live(signum=None, frame=None):
    with _LIVE_LOCK:
        for q in list(_LIVE):
            try:
                q.kill()
            except Exception:
                pass
    if signum is not None:
        os._exit(2)


def install_signal_handlers():
    for sg in (signal.SIGTERM, signal.SIGINT, signal.SIGHUP):
        try:
            signal.signal(sg, _kill_live)
        except Exception:
            pass


def run_worker(prop, flv, binp, seed, tier, a, b, workdir, timeout_idle, extra_args=(), wrap=()):
    """run cases [a,b); returns dict(events=[...], crashed_case=None|k, rc, stderr)"""
    os.makedirs(workdir, exist_ok=True)
    outp = os.path.join(workdir, 'out.%s.%d.%d.jsonl' % (flv, a, b))
    errp = outp + '.err'
    cmd = list(wrap) + [binp, '--prop', prop, '--seed', str(seed), '--from', str(a), '--to', str(b), '--tier', tier, '--tmpdir', workdir] + list(extra_args)
    env = san_env(flv, workdir)
    with open(outp, 'wb') as fo, open(errp, 'wb') as fe:
        p = subprocess.Popen(cmd, stdout=fo, stderr=fe, env=env, cwd=workdir, preexec_fn=_pdeathsig)
        with _LIVE_LOCK:
            _LIVE.add(p)
        last_size, last_change = -1, time.time()
        killed = False
        while True:
            try:
                p.wait(timeout=0.5)
                break
            except subprocess.TimeoutExpired:
                sz = os.path.getsize(outp)
                if sz != last_size:
                    last_size, last_change = sz, time.time()
                elif time.time() - last_change > timeout_idle:
                    p.kill()
                    p.wait()
                    killed = True
                    break
        with _LIVE_LOCK:
            _LIVE.discard(p)
    events, open_case, done_upto = [], None, a
    with open(outp, 'r', errors='replace') as f:
        for line in f:
            line = line.strip()
            if not line.startswith('{'):
                continue
            try:
                ev = json.loads(line)
            except Exception:
                continue
            events.append(ev)
            if ev.get('ev') == 'begin':
                open_case = ev.get('case')
            elif ev.get('ev') == 'end':
                open_case = None
                done_upto = ev.get('case') + 1
    with open(errp, 'r', errors='replace') as f:
        err = f.read()
    summary = any(e.get('ev') == 'summary' for e in events)
    res = dict(events=events, rc=p.returncode, stderr=err[-20000:], killed=killed, crashed_case=None, done_upto=done_upto, summary=summary,
               outp=outp)
    if killed or p.returncode != 0 or not summary:
        res['crashed_case'] = open_case if open_case is not None else done_upto
        res['crash_in_case'] = open_case is not None
    return res


def main():
    args = sys.argv[1:]
    if not args or args[0] in ('-h', '--help'):
        print(__doc__)
        return 0
    cmd = args[0]
    install_signal_handlers()
    opts = dict(tier=os.environ.get('VERIF_TIER', 'quick'), seed=int(os.environ.get('VERIF_SEED', '0') or 0), jobs=NCPU, replay=None,
                scale=float(os.environ.get('VERIF_SCALE', '1')))
    i = 1
    rest = []
    while i < len(args):
        a = args[i]
        if a == '--tier':
            opts['tier'] = args[i + 1]
            i += 2
        elif a == '--seed':
            opts['seed'] = int(args[i + 1])
            i += 2
        elif a == '--jobs':
            opts['jobs'] = int(args[i + 1])
            i += 2
        elif a == '--replay':
            opts['replay'] = args[i + 1]
            i += 2
        elif a == '--scale':
            opts['scale'] = float(args[i + 1])
            i += 2
        else:
            rest.append(a)
            i += 1
    if cmd == 'setup':
        return do_setup(rest)
    if cmd == 'build':
        return do_setup(rest)
    if cmd in PROPS:

        if opts['replay']:
            return run_replay(cmd, opts)
        return run_check(cmd, opts)
    print('unknown command', cmd, file=sys.stderr)
    return 2


def do_setup(which):
    b = Builder()
    futs = []
    props = which or sorted(PROPS)
    seen = set()
    for p in props:
        P = PROPS[p]
        for tier in ('quick', 'thorough'):
            for st in P['stages'](tier):
                k = (st['harness'], st['flavour'])
                if k in seen:
                    continue
                seen.add(k)
                futs.append(b.harness(*k))
    ok = True
    for f, binp in futs:
        if not f.result():
            ok = False
    for t, lf in b.failed:
        log('BUILD FAILED', t, 'see', lf)
        try:
            sys.stderr.write(open(lf).read()[-3000:])
        except Exception:
            pass
    b.prune()
    return 0 if ok else 2



# ------------------------------------------------------------------ check execution
def merge_summary(agg, ev):
    for k, v in ev.get('counters', {}).items():
        agg['counters'][k] = agg['counters'].get(k, 0) + v
    for k, v in ev.get('maxima', {}).items():
        try:
            v = float(v)
        except Exception:
            continue
        if k not in agg['maxima'] or v > agg['maxima'][k]:
            agg['maxima'][k] = v
    for k, v in ev.get('distinct', {}).items():
        agg['distinct'].setdefault(k, set()).update(v)
    for s_ in ev.get('samples', []):
        if len(agg['samples']) < 8:
            agg['samples'].append(s_)


def process_chunk(prop, st, binp, asan_bin, seed, tier, a, b, workdir, agg, lock):
    """runs cases [a,b) of a stage with crash isolation; appends to agg under lock"""
    idle = st.get('idle_timeout', 120 if tier == 'quick' else 400) * FLAVOURS[st['flavour']].get('slow', 1)
    extra = []
    if st.get('sub'):
        extra += ['--sub', st['sub']]
    for k_, v_ in st.get('args', {}).items():
        extra += ['--' + k_, str(v_)]
    wrap = ()
    if st.get('memcheck'):
        # valgrind memcheck on the non-sanitized build: uninitialised reads (which ASan cannot see) and a second opinion on invalid accesses
        wrap = memcheck_wrap(workdir)
        idle *= 30
    def attribute_by_asan(lo, hi, res_):
        """a non-sanitized worker died from heap corruption caused by an earlier case of the same process: find the culprit by
        re-running the cases [lo, hi) it had completed under ASan; returns True if a memory error was found (and reported)"""
        if not (asan_bin and asan_bin != binp and st['flavour'] != 'asan' and hi > lo and not wrap):
            return False
        found = False
        lo_ = lo
        for _ in range(6):
            c2 = run_worker(prop, 'asan', asan_bin, seed, tier, lo_, hi, workdir, idle * 4, extra)
            if c2['crashed_case'] is None or not c2.get('crash_in_case'):
                break
            k2 = c2['crashed_case']
            key2 = crash_key(c2['stderr'], c2['rc'])
            desc2 = ''
            for ev in c2['events']:
                if ev.get('ev') == 'begin' and ev.get('case') == k2:
                    desc2 = ev.get('desc', '')
            marks = [m_ for m_ in st.get('crash_markers', []) if m_ in desc2]
            if marks:
                key2 += '+' + ','.join(marks)
            with lock:
                agg['viols'].append(dict(ev='viol', case=k2, key='crash:' + key2, detail='the %s worker died later in the same process (rc=%s, %s); the cases it had '
                                         'completed, re-run under ASan: memory error in case %d [%s]' % (st['flavour'], res_['rc'], res_['stderr'][-200:].strip().replace('\n', ' '), k2, desc2),
                                         _stage=dict(st, flavour='asan'), stderr=c2['stderr'][-6000:]))
                agg['counters']['driver.deaths_attributed_by_asan'] = agg['counters'].get('driver.deaths_attributed_by_asan', 0) + 1
            found = True
            lo_ = k2 + 1
            if lo_ >= hi:
                break
        return found

    cur = a
    guard = 0
    while cur < b and guard < 50:
        guard += 1
        res = run_worker(prop, st['flavour'], binp, seed, tier, cur, b, workdir, idle, extra, wrap)
        if wrap:
            with lock:
                agg['counters']['memcheck.processes'] = agg['counters'].get('memcheck.processes', 0) + 1
                agg['counters']['memcheck.cases_completed'] = agg['counters'].get('memcheck.cases_completed', 0) + max(0, res['done_upto'] - cur)
        with lock:
            for ev in res['events']:
                t = ev.get('ev')
                if t == 'summary' or t == 'partial':
                    merge_summary(agg, ev)
                elif t == 'viol':
                    ev['_stage'] = st
                    agg['viols'].append(ev)
                elif t == 'note':
                    if len(agg['notes']) < 200:
                        agg['notes'].append(ev)
        if res['crashed_case'] is None:
            break
        k = res['crashed_case']
        # events of completed cases before the crash had no summary: count what we can
        with lock:
            agg['counters']['driver.worker_deaths'] = agg['counters'].get('driver.worker_deaths', 0) + 1
        if not res.get('crash_in_case'):
            # died between cases.  In a non-sanitized flavour this is what heap corruption by an *earlier* case of the same process looks
            # like (glibc aborts in a later free/malloc): re-run the cases this worker had completed under ASan to find the culprit.
            attributed = attribute_by_asan(cur, res['done_upto'], res)
            if attributed:
                cur = res['done_upto']       # go on behind the point of death in a fresh process
                continue
            with lock:
                agg['harness_errors'].append('worker died outside a case (rc=%s) stage=%s range=%d..%d stderr=%s' % (
                    res['rc'], st['name'], cur, b, res['stderr'][-1500:]))
            break
        # confirm in a fresh process
        conf = run_worker(prop, st['flavour'], binp, seed, tier, k, k + 1, workdir, idle, extra, wrap)
        reproduced = conf['crashed_case'] is not None and conf.get('crash_in_case')
        use = conf if reproduced else res
        hang = use['killed']
        if hang:
            key = 'hang:' + st['name']
            desc = ''
            for ev in use['events']:
                if ev.get('ev') == 'begin' and ev.get('case') == k:
                    desc = ev.get('desc', '')
            with lock:
                if reproduced and st.get('hang_is_violation'):
                    agg['viols'].append(dict(ev='viol', case=k, key=key + ':' + desc, detail='no progress for %ds (reproduced)' % idle, _stage=st,
                                             stderr=use['stderr'][-3000:]))
                else:
                    agg['inconclusive'].append('watchdog fired on case %d of stage %s (reproduced=%s) %s' % (k, st['name'], reproduced, desc))
                    agg['counters']['driver.watchdog'] = agg['counters'].get('driver.watchdog', 0) + 1
        else:
            errtxt = use['stderr']
            key = crash_key(errtxt, use['rc'])
            if key.endswith(':') and asan_bin and asan_bin != binp:
                # no frames (non-sanitizer flavour): ask the asan binary for attribution
                c2 = run_worker(prop, 'asan', asan_bin, seed, tier, k, k + 1, workdir, idle * 3, extra)
                if c2['crashed_case'] is not None:
                    k2 = crash_key(c2['stderr'], c2['rc'])
                    if not k2.endswith(':'):
                        key = k2
                        errtxt = c2['stderr']
            desc = ''
            for ev in use['events']:
                if ev.get('ev') == 'begin' and ev.get('case') == k:
                    desc = ev.get('desc', '')
            if not reproduced and attribute_by_asan(cur, k, res):
                # the death inside case k does not reproduce on its own and an earlier case of the same process corrupts memory
                # under ASan: the earlier case is the finding, case k is innocent
                cur = k
                continue
            if not reproduced:
                key = 'nonrepro-' + key
            # optional root-cause markers: configuration fragments of the case description named by the stage
            marks = [m_ for m_ in st.get('crash_markers', []) if m_ in desc]
            if marks:
                key += '+' + ','.join(marks)
            with lock:
                agg['viols'].append(dict(ev='viol', case=k, key='crash:' + key, detail='worker died (rc=%s) in case %d [%s]; reproduced=%s' % (
                    use['rc'], k, desc, reproduced), _stage=st, stderr=errtxt[-6000:]))
        cur = k + 1


def memcheck_wrap(workdir):
    os.makedirs(workdir, exist_ok=True)
    return ['valgrind', '-q', '--error-exitcode=0', '--track-origins=yes', '--num-callers=16', '--error-limit=no',
            '--log-file=' + os.path.join(workdir, 'vg.%p.log')]


_SRC_BASENAMES = None


def memcheck_reports(workdir):
    """parse valgrind memcheck logs -> (list of (key, text) attributed to soplex frames, number of unattributed reports)"""
    global _SRC_BASENAMES
    if _SRC_BASENAMES is None:
        _SRC_BASENAMES = set(os.path.basename(p) for p in repo_src_files())
    KINDS = [('Conditional jump or move depends on uninitialised', 'uninit-branch'), ('Use of uninitialised value', 'uninit-use'),
             ('Syscall param', 'uninit-syscall'), ('Invalid read', 'invalid-read'), ('Invalid write', 'invalid-write'),
             ('Invalid free', 'invalid-free'), ('Mismatched free', 'mismatched-free'), ('Source and destination overlap', 'overlap'),
             ('Argument', 'fishy-argument')]
    out, unattributed = [], 0
    for p in glob.glob(os.path.join(workdir, 'vg.*.log')):
        try:
            txt = open(p, errors='replace').read()
        except OSError:
            continue
        txt = re.sub(r'^==\d+== ?', '', txt, flags=re.M)
        for blk in re.split(r'\n\s*\n', txt):
            kind = None
            for pat, kd in KINDS:
                if blk.lstrip().startswith(pat):
                    kind = kd
                    break
            if not kind:
                continue
            main = blk.split('Uninitialised value was created')[0].split(' Address 0x')[0]
            frames = []
            for m in re.finditer(r'(?:at|by) 0x[0-9A-Fa-f]+: (.+?) \(([^()]*?)(?::(\d+))?\)\s*$', main, flags=re.M):
                fn, fil = m.group(1), m.group(2)
                if fil in _SRC_BASENAMES or fn.startswith('soplex::') or fn.startswith('SoPlex_'):
                    f_ = clean_fn(fn)
                    if f_ and f_ not in frames:
                        frames.append(f_)
                if len(frames) >= 2:
                    break
            if not frames:
                unattributed += 1
                continue
            out.append(('memcheck:%s:%s' % (kind, '|'.join(frames)), blk[:5000]))
    return out, unattributed


def tsan_reports(workdir):
    """parse TSan logs -> list of (key, text)"""
    out = []
    for p in glob.glob(os.path.join(workdir, 'tsan.*')):
        try:
            txt = open(p, errors='replace').read()
        except OSError:
            continue
        for blk in txt.split('=================='):
            if 'WARNING: ThreadSanitizer' not in blk:
                continue
            m = re.search(r'WARNING: ThreadSanitizer: ([\w \-]+)', blk)
            kind = m.group(1).strip().replace(' ', '-') if m else 'report'
            # split stacks: sections start with lines not beginning with '#'
            stacks, cur_ = [], []
            for line in blk.splitlines():
                ls = line.strip()
                if ls.startswith('#'):
                    cur_.append(ls)
                elif cur_:
                    stacks.append(cur_)
                    cur_ = []
            if cur_:
                stacks.append(cur_)
            tops = []
            for stck in stacks[:2]:
                top = ''
                for fr in stck:
                    m2 = re.match(r'#\d+ (.+?) (/\S+|<null>)', fr)
                    if m2 and ('/repo/src' in m2.group(2) or 'soplex' in m2.group(1)):
                        top = clean_fn(m2.group(1))
                        break
                tops.append(top or '?')
            tops.sort()
            out.append(('tsan:%s:%s' % (kind, '|'.join(tops)), blk[:4000]))
    return out


def run_check(prop, opts):
    t0 = time.time()
    P = PROPS[prop]
    tier, seed = opts['tier'], opts['seed']
    stages = P['stages'](tier)
    only = os.environ.get('VERIF_FLAVOURS')      # development aid only: restrict the flavours that are run
    if only:
        stages = [s_ for s_ in stages if s_['flavour'] in only.split(',')]
    evid_path = os.path.join(VERIF, 'evidence', prop + '.json')
    if os.path.realpath(REPO) != '/repo':
        # development runs against a scratch copy (VERIF_REPO=...) must not overwrite the evidence of /repo
        evid_path = os.path.join(CACHE, 'evidence_scratch', re.sub(r'[^A-Za-z0-9_.-]+', '_', os.path.realpath(REPO)), prop + '.json')
    os.makedirs(os.path.dirname(evid_path), exist_ok=True)
    b = Builder()
    bins = {}
    for st in stages:
        bins[(st['harness'], st['flavour'])] = b.harness(st['harness'], st['flavour'])
        if st['flavour'] == 'opt' and not only:
            bins[(st['harness'], 'asan')] = b.harness(st['harness'], 'asan')
    okb = True
    for kk, (f, binp) in bins.items():
        if not f.result():
            okb = False
    if not okb:
        for t, lf in b.failed:
            log('BUILD FAILED', t)
            try:
                sys.stderr.write(open(lf).read()[-4000:])
            except Exception:
                pass
        print('HARNESS-FAILURE property=%s build failed' % prop)
        return 2
    b.prune()
    workdir = os.path.join(CACHE, 'run', '%s.%d' % (prop, os.getpid()))
    shutil.rmtree(workdir, ignore_errors=True)
    os.makedirs(workdir)
    agg = dict(counters={}, maxima={}, distinct={}, samples=[], viols=[], notes=[], inconclusive=[], harness_errors=[])
    lock = threading.Lock()
    jobs = []
    stage_info = []
    custom_stages = []
    for si, st in enumerate(stages):
        n = int(max(1, round(st['cases'] * opts['scale'])))
        binp = bins[(st['harness'], st['flavour'])][1]
        if st.get('custom'):
            custom_stages.append((si, st, binp, n))
            stage_info.append(dict(name=st['name'], harness=st['harness'], flavour=st['flavour'], cases=n, custom=st['custom']))
            continue
        asan_bin = bins.get((st['harness'], 'asan'), (None, None))[1]
        nchunks = min(n, max(1, opts['jobs'] * st.get('chunks_per_job', 3)))
        if st.get('single_process'):
            nchunks = 1
        step = (n + nchunks - 1) // nchunks
        off = int(st.get('offset', 0))       # lets a stage (e.g. memcheck) look at cases the other stages of the check do not run
        for a in range(0, n, step):
            jobs.append((si, st, binp, asan_bin, off + a, off + min(n, a + step)))
        stage_info.append(dict(name=st['name'], harness=st['harness'], flavour=st['flavour'], cases=n, sub=st.get('sub', '')))
    # interleave stages so slow flavours start early
    jobs.sort(key=lambda j: (-FLAVOURS[j[1]['flavour']].get('slow', 1), j[4]))
    with concurrent.futures.ThreadPoolExecutor(max_workers=opts['jobs']) as ex:
        futs = [ex.submit(process_chunk, prop, st, binp, asan_bin, seed, tier, a, bb, os.path.join(workdir, 's%d' % si), agg, lock)
                for (si, st, binp, asan_bin, a, bb) in jobs]
        for f in futs:
            f.result()
    # custom stages (e.g. libFuzzer, valgrind, strace fault injection): module:function under pylib/, called sequentially
    for (si, st, binp, n) in custom_stages:
        import importlib
        modn, fn = st['custom'].split(':')
        ctx = dict(prop=prop, stage=st, bin=binp, cases=n, seed=seed, tier=tier, workdir=os.path.join(workdir, 's%d' % si), agg=agg, lock=lock,
                   opts=opts, builder=b, run_worker=run_worker, crash_key=crash_key, san_env=san_env, VERIF=VERIF, REPO=REPO, CACHE=CACHE)
        os.makedirs(ctx['workdir'], exist_ok=True)
        try:
            getattr(importlib.import_module(modn), fn)(ctx)
        except Exception as e:
            import traceback
            agg['harness_errors'].append('custom stage %s failed: %s\n%s' % (st['name'], e, traceback.format_exc()[-1500:]))
    # thread sanitizer logs
    for si, st in enumerate(stages):
        if st['flavour'] == 'tsan':
            seen = {}
            for key, txt in tsan_reports(os.path.join(workdir, 's%d' % si)):
                seen.setdefault(key, []).append(txt)
            for key, txts in seen.items():
                agg['viols'].append(dict(ev='viol', case=-1, key=key, detail='%d ThreadSanitizer report(s); first:\n%s' % (len(txts), txts[0][:2500]),
                                         _stage=st))
            agg['counters']['tsan.reports'] = agg['counters'].get('tsan.reports', 0) + sum(len(v) for v in seen.values())
            agg['counters']['tsan.distinct_reports'] = agg['counters'].get('tsan.distinct_reports', 0) + len(seen)
    # memcheck logs
    for si, st in enumerate(stages):
        if st.get('memcheck'):
            reps, unatt = memcheck_reports(os.path.join(workdir, 's%d' % si))
            seen = {}
            for key, txt in reps:
                seen.setdefault(key, []).append(txt)
            for key, txts in seen.items():
                agg['viols'].append(dict(ev='viol', case=-1, key=key, detail='%d memcheck report(s); first:\n%s' % (len(txts), txts[0][:3000]), _stage=st))
            for nm, v in (('memcheck.reports', len(reps)), ('memcheck.distinct_reports', len(seen)), ('memcheck.reports_without_soplex_frame', unatt)):
                agg['counters'][nm] = agg['counters'].get(nm, 0) + v
    # ---- verdict
    known = load_known()
    rp_dir = os.path.join(CACHE, 'replay', prop)
    os.makedirs(rp_dir, exist_ok=True)
    seen_keys, new_viol, known_hit = {}, [], {}
    for v in agg['viols']:
        key = v.get('key', '?')
        if not key.startswith(prop + ':'):
            key = prop + ':' + key
        if key in seen_keys:
            seen_keys[key]['count'] += 1
            continue
        st = v.get('_stage', {})
        rp = os.path.join(rp_dir, re.sub(r'[^A-Za-z0-9_.-]+', '_', key)[:120] + '.' + hashlib.sha1(key.encode()).hexdigest()[:8] + '.json')
        rec = dict(property=prop, key=key, detail=v.get('detail', ''), seed=seed, tier=tier, case=v.get('case'), harness=st.get('harness'),
                   flavour=st.get('flavour'), sub=st.get('sub', ''), args=st.get('args', {}), replay=v.get('replay'), stderr=v.get('stderr', ''),
                   count=1, how='%s %s --replay %s' % (os.path.join(VERIF, 'vcheck'), prop, rp))
        seen_keys[key] = rec
        kf = match_known(known, prop, key)
        if kf:
            known_hit.setdefault(kf['key'], dict(entry=kf, keys=[]))['keys'].append(key)
        else:
            new_viol.append(rec)
        try:
            json.dump(rec, open(rp, 'w'), indent=1)
        except Exception as e:
            agg['harness_errors'].append('cannot write replay file: %s' % e)
        rec['replay_path'] = rp
    for kk, h in known_hit.items():
        print('KNOWN-FINDING: property=%s %s [key %s]' % (prop, h['entry'].get('what', ''), kk))
    for rec in new_viol:
        print('VIOLATION property=%s replay=%s' % (prop, rec['replay_path']))
        print('  key: %s\n  detail: %s' % (rec['key'], (rec['detail'] or '')[:600].replace('\n', '\n    ')))
    # mandatory minima
    minima = P.get('minima', lambda t: {})(tier)
    missing = []
    for name, mn in minima.items():
        have = agg['counters'].get(name, 0)
        if name.startswith('distinct:'):
            have = len(agg['distinct'].get(name[9:], ()))
        if have < mn * min(1.0, opts['scale']):
            missing.append('%s=%s (<%s)' % (name, have, mn))
    evaluations = int(agg['counters'].get(P.get('eval_counter', 'cases'), 0))
    dn = len(agg['distinct'].get(P.get('distinct_set', 'nontrivial'), ()))
    cov = dict(evaluations=max(evaluations, 0), distinct_nontrivial=dn, rule=P['rule'], samples=agg['samples'] or ['<none>'],
               counters=dict(sorted(agg['counters'].items())), maxima_observed_over_threshold=dict(sorted(agg['maxima'].items())),
               distinct_counts={k: len(v) for k, v in agg['distinct'].items()}, stages=stage_info,
               inconclusive=agg['inconclusive'][:40], notes=[n.get('kind', '') + ': ' + n.get('detail', '')[:200] for n in agg['notes'][:40]],
               known_findings_observed=sorted(known_hit.keys()), new_violation_keys=[r['key'] for r in new_viol],
               mandatory_minima=minima, mandatory_minima_missing=missing, exhaustive=bool(P.get('exhaustive', False)))
    evid = dict(property_id=prop, tier=tier, seed=seed, level=P['level'], coverage=cov, assumptions=P.get('assumptions', []),
                wall_s=round(time.time() - t0, 1), violations=len(new_viol))
    rc = 0
    if new_viol:
        rc = 1
    elif agg['harness_errors'] or missing or evaluations < 1 or dn < 2:
        rc = 2
    evid['verdict'] = {0: 'held on what was observed', 1: 'violated', 2: 'inconclusive / harness failure'}[rc]
    try:
        with open(evid_path + '.tmp', 'w') as f:
            json.dump(evid, f, indent=1, default=str)
        os.replace(evid_path + '.tmp', evid_path)
    except Exception as e:
        print('HARNESS-FAILURE cannot write evidence: %s' % e)
        return 2
    for e in agg['harness_errors'][:10]:
        print('HARNESS-FAILURE property=%s %s' % (prop, e[:1500]))
    if missing and rc == 2:
        print('INCONCLUSIVE property=%s mandatory observations missing: %s' % (prop, ', '.join(missing)))
    print('%s tier=%s seed=%d: %s; %d evaluations, %d distinct non-trivial, %d new violation key(s), %d known finding(s), %.0fs' % (
        prop, tier, seed, evid['verdict'], evaluations, dn, len(new_viol), len(known_hit), time.time() - t0))
    if rc == 0 or os.environ.get('VERIF_KEEP') is None:
        shutil.rmtree(workdir, ignore_errors=True)
    return rc


def run_replay(prop, opts):
    rec = json.load(open(opts['replay']))
    b = Builder()
    f, binp = b.harness(rec['harness'], rec['flavour'])
    if not f.result():
        print('HARNESS-FAILURE build failed')
        return 2
    workdir = os.path.join(CACHE, 'run', 'replay.%d' % os.getpid())
    os.makedirs(workdir, exist_ok=True)
    k = rec['case'] if rec.get('case', -1) is not None and rec.get('case', -1) >= 0 else 0
    extra = []
    if rec.get('sub'):
        extra += ['--sub', rec['sub']]
    for k_, v_ in (rec.get('args') or {}).items():
        extra += ['--' + k_, str(v_)]
    to = k + 1 if rec.get('case', -1) is not None and rec.get('case', -1) >= 0 else 10**9
    cmd = [binp, '--prop', prop, '--seed', str(rec['seed']), '--from', str(k), '--to', str(to), '--tier', rec['tier'], '--tmpdir', workdir,
           '--verbose', '1'] + extra
    print('replaying:', ' '.join(cmd))
    r = subprocess.run(cmd, env=san_env(rec['flavour'], workdir), cwd=workdir)
    shutil.rmtree(workdir, ignore_errors=True)
    print('exit code', r.returncode)
    return 0


if __name__ == '__main__':
    sys.exit(main())
