#!/usr/bin/env python3
"""Development aid (not part of any registered command): copies a confirmed seeded change from a sub-agent's scratch output directory into
/verif/seeded/<id>/ and writes meta.json.   usage: import_seeded.py <id> <srcdir> <breaks> <file> <function> <what> <needs>"""
import sys, os, json, shutil
V = os.path.dirname(os.path.dirname(os.path.abspath(__file__)))
sid, src, breaks, fil, fn, what, needs = sys.argv[1:8]
d = os.path.join(V, 'seeded', sid)
os.makedirs(d, exist_ok=True)
for f in ('patch.diff', 'demo.cpp', 'notes.md', 'confirm.txt'):
    if os.path.exists(os.path.join(src, f)):
        shutil.copy(os.path.join(src, f), os.path.join(d, f))
conf = open(os.path.join(d, 'confirm.txt')).read() if os.path.exists(os.path.join(d, 'confirm.txt')) else ''
assert 'CONFIRMED' in conf and 'NOT-CONFIRMED' not in conf, 'not confirmed: ' + conf
meta = dict(breaks=breaks.split(',') if ',' in breaks else breaks, source='independent sub-agent (property text + scratch worktree only)', file=fil, function=fn,
            what=what, needs=needs,
            confirmed='confirm.txt: 468 tests pass with the patch, demo exits 1 with and 0 without the patch (re-run by me with confirm_mutant.sh in the scratch worktree)')
json.dump(meta, open(os.path.join(d, 'meta.json'), 'w'), indent=1)
print('imported', sid)
