#!/usr/bin/env python3
"""Writes known_findings.json (the committed list of genuine defects of the pinned tree that are recorded, not repaired, plus the
record of repaired ones).  Edit THIS file, then run it.  Never written at check time."""
import json, os
V = os.path.dirname(os.path.dirname(os.path.abspath(__file__)))
SOLVE = ['C01', 'C02', 'C04', 'C05', 'C06', 'C09', 'C16', 'C17']
F = []


def open_(prop, key, what, regex=False, repro=''):
    F.append(dict(property=prop, key=key, regex=regex, status='open', what=what, repro=repro))


def fixed(prop, commit, what):
    F.append(dict(property=prop, key='', status='fixed', commit=commit, what=what))


# ------------------------------------------------------------------ repaired (fix: commits in /repo); these suppress nothing
fixed(['C01', 'C10'], '2fb459a', 'CLUFactor::solveUpdateLeft (sparse variant, product-form update) used the row index as loop bound: segfault / wrong solves with factor_update_type=0')
fixed(['C04'], 'b764424', 'after a solve with internal (non-persistent) scaling and no simplifier the solver held no basis: getBasis() reported more basic variables than rows')
fixed(['C06', 'C09'], '46fdfab', 'vector versions of changeLower/Upper/Lhs/Rhs scaled +-infinity in a persistently scaled LP (finite bound 2.5e99, wrong row type)')
fixed(['C06', 'C09'], 'b9e2679', 'getLowerReal/getUpperReal/getLhsReal/getRhsReal (vector getters) unscaled +-infinity on a persistently scaled LP (returned e.g. 5e99)')
fixed(['C06'], 'd3e5c49', 'clearLPReal()/clearLPRational() reset the LP sense to MAXIMIZE while the OBJSENSE parameter kept MINIMIZE')
fixed(['C01', 'C09', 'C19'], '14b19fe', 'SSVectorBase::assign2productShort set num before clear(): out-of-bounds writes, segfault in SPxLeastSqSC::scale (scaler=5)')
fixed(['C03'], 'c56a743', 'objValueRational() (and objValueReal() after an exact solve) ignored the objective offset')
fixed(['C08', 'C01'], 'c6df7d3', 'postsolve of doubleton and multi-aggregation left the slacks of the other rows at their reduced-LP values (and set the aggregated row slack to 0)')
fixed(['C07', 'C09'], '044eacf', 'changeObjRational() (3 overloads) ignored persistent scaling of the real LP: objReal() returned value * 2^colexp')
fixed(['C07'], '84b6c95', 'syncLPRational() / real-only exact solves copied the persistently scaled real LP into the rational LP')
fixed(['C14'], 'bd14627', 'readBasis() built default names x0, x0x1, x0x1x2, ... so basis files written with default names were rejected')
fixed(['C07', 'C20'], '6ed0c9c', 'mpq_t array overloads of LPRowSetBase/LPColSetBase::add() did not grow scaleExp: heap-buffer-overflow in a later remove()')

fixed(['C17'], '4c1443a', 'copying an SPxSolverBase lost the random number generator state and the store-basis frequency settings: copy and source diverge on the next solve')
fixed(['C17'], '681afb0', 'SoPlexBase::operator= shared the Tolerances object between source and copy: changing a tolerance of one changed the other')
fixed(['C17'], '76e1f1f', 'a copied SoPlex object with a persistently scaled LP kept lp_scaler / scale exponent pointers into the source object: use-after-free when the source is destroyed')
fixed(['C17'], 'a5f85ce', 'a copied SPxSolverBase kept basis-matrix vector pointers into the LP of its source: the next solve of the copy depended on modifications of the source')
fixed(['C13', 'C01'], '289d1ce', 'readLPF() (real and rational) leaked the internally created NameSet objects (placement new without destructor call)')
fixed(['C15'], '8545d4c', 'setRealParam() accepted NaN for every real parameter (stored, or SIGFPE in GMP for feastol/opttol/infty/maxscaleincr)')
fixed(['C15'], '58e96b2', 'rejected setIntParam(SIMPLIFIER, PAPILO) in a non-PaPILO build still re-pointed the active simplifier')
fixed(['C15'], '7ed6134', 'resetSettings() did not reset the random seed')
fixed(['C15', 'C13'], '8678150', 'settings parsers stepped over the terminating NUL of a line ending after the type or the name')
fixed(['C15', 'C13'], '309920a', 'std::stoi/stod/stoul exceptions escaped from loadSettingsFile()/parseSettingsString()')
fixed(['C15', 'C13'], 'deb3b05', 'std::stod exception escaped from parseSettingsString() for real parameters')
fixed(['C15'], 'e28a1fa', 'subnormal real parameter values written by saveSettingsFile() could not be loaded back (std::stod throws on underflow)')
fixed(['C15'], '1d863e0', 'settings parsers accepted any non-numeric text as the boolean value false')
fixed(['C15'], 'e1b81b2', 'settings parsers accepted any uint parameter name starting with random_seed')
fixed(['C15'], '9c5c7ca', 'setSettings() stored the new settings before calling the setters: with init=false nothing was applied, and only-real -> auto sync mode segfaulted')
fixed(['C15'], 'dc35f91', 'leastsq_maxrounds / leastsq_acrcy were applied only if the least squares scaler was currently selected')

fixed(['C17'], 'ac19462', 'SLUFactor::assign tested the target\'s stale l.rval instead of the source\'s: assigning a never-solved SoPlex object to a used one crashed (memcpy from null with uninitialised length); found by the memcheck stage')
fixed(SOLVE + ['C14'], '96460ce', 'SPxWeightST::initPrefs read row[0] of an empty array for an LP without rows (starter=weight/sum/vector): SIGSEGV')
fixed(['C17'], '2c7ec70', 'SoPlexBase::operator= / copy constructor left _optimizeCalls/_unscaleCalls uninitialised; _reapplyPersistentScaling() of the copy branched on them (memcheck: conditional jump on uninitialised value)')

fixed(['C17'], 'a80c076', 'the pricer and ratio tester cloned into a copied solver kept the Tolerances object of the source (SPxSolverBase::setTolerances did not reach them): changing tolerances of the source changed the next solve of the copy')

fixed(['C20'], 'c338617', 'SoPlex_objValueRationalString computed the buffer length from the still empty string: one-byte result without NUL')
fixed(['C20'], '0f0c2cf', 'SoPlex_changeObjRational/changeLhsRational/changeRhsRational leaked the temporary Rational array on every call')
fixed(['C20'], '68bc027', 'SoPlex_getRowVectorRational assigned the row to a default-constructed SVectorRational (null storage): crash on every non-empty row')
fixed(['C20'], '1aff202', 'SoPlex_getPrimalRationalString / SoPlex_objValueRationalString returned new[] memory that the C caller is told to free()')
fixed(['C20', 'C03'], '4ccde39', 'after an exact solve ending INFEASIBLE the primal/reduced-cost vectors kept the auxiliary column of the feasibility problem: getPrimalReal/getRedCostReal wrote one element past a numCols() array')
fixed(['C11'], 'cc48e99', 'CLUFactorRational::vSolveRight4update2/3 inverted the zero test for the extra right-hand sides: second and third solution vectors came back as zero')
fixed(['C10'], '2019935', 'CLUFactor::vSolveUpdateRight (ETA updates) wrote ridx[n] speculatively: one int past a dim-sized index array when the result is dense')
fixed(['C18'], 'ae8167c', 'MPSInput::readLine used strtok(): concurrent readFile/readBasisFile calls on MPS data in different threads corrupted each other (TSan race, wrong LPs, crashes)')
fixed(['C12', 'C13'], '22b70e2', 'ratFromString scaled by pow(10, e) in double: 1e-1 and 1e23 inexact, SIGFPE in GMP for exponents above 308')
fixed(['C12'], 'ef4b3bf', 'ratFromString threw on "-0.0" (all digits stripped): LP reader kept the default value 1, MPS reader the previous field')
fixed(['C12'], '366b48d', 'MPS bounds reader treated MI as an integer bound type: column reported integer and its upper bound reset to infinity')
fixed(['C12'], '044d28b', 'writeDualFileReal("*.mps") dereferenced the null tolerances of the temporary dual LP')
fixed(['C12'], '8a316dc', 'real MPS writer glued an 8-character column/set name to the following row name: file not readable / different columns')
fixed(['C12'], '63587e0', 'real MPS writer truncated values >= 1e54 (%.15lf into char[81]): 1e100 read back as 1e69')
fixed(['C13'], 'fdd779e', 'MPSInput::readLine looped forever at the end of an MPS/basis file without ENDATA')
fixed(['C13'], '126ff32', 'rational MPS reader passed a null name to NameSet for a ROWS line with one field')
fixed(['C13'], '77103b4', 'SPxLPBase::read() tested an uninitialised char for an empty input (valgrind)')
fixed(['C13', 'C15', 'C14', 'C20'], '43c980e', 'readFile/readBasisFile/loadSettingsFile let strict_fstream::Exception (missing or unreadable file) and zstr::Exception (corrupt gzip, read error) escape instead of returning false')
fixed(['C13'], '2e7e740', 'LP reader copied numbers, column names and row names into 8192-byte stack buffers: stack-buffer-overflow for longer tokens')
fixed(['C13'], 'b2af63e', 'MPS reader stored duplicate (column,row) coefficients twice: later heap-buffer-overflow in SPxMainSM::duplicateRows')
fixed(['C19'], '3fda21e', 'Array::insert (4 overloads) inserted at begin()+i-1')
fixed(['C19'], 'b5bb3ac', 'SVSetBase::operator= (both) copied a set of empty vectors as an empty set (tested memSize instead of num)')
fixed(['C19'], '60c74be', 'SVSetBase::add(nkey[], svec[], n) never wrote nkey[0], looped ~2^32 times for n == 0')
fixed(['C19'], 'c086888', 'LPRowSetBase/LPColSetBase::remove(nums, n[, perm]) read the loop bound after the removal: survivors kept another entry\'s sides/objective')
fixed(['C19'], 'd2fc64d', 'ClassSet copy constructor copied thenum instead of thesize items')
fixed(['C19'], 'a2714da', 'ClassSet::reMax(newmax < max()) heap-buffer-overflow (also via SVSet/LPRowSet/LPColSet::reMax(0))')
fixed(['C19'], '5a409df', 'IdxSet::remove(n, m) overwrote idx[n-1] (idx[-1] for n == 0) when nothing follows the range')
fixed(['C19'], '749abce', 'DataArray::reMax(newMax < size()) left max() < size()')
fixed(['C19'], 'aa5f76f', 'SVectorBase = SSVectorBase (and DSVector(SSVector), DSVector = SSVector) always empty')
fixed(['C19'], 'fb8c172', 'SSVectorBase::assign2productShort wrote idx[dim] once the intermediate result was dense')

fixed(['C07', 'C20', 'C03'], '6d45340', 'an exact solve after a floating-point solve worked on the persistently scaled real LP and dropped its scaler: the LP stayed flagged scaled with lp_scaler == nullptr, lhsReal()/getRowVectorReal() dereferenced null (found by the exact-solve operation added to the C07 histories)')
fixed(['C05'], '6532812', 'unscaled getBasisInverseColReal/RowReal/TimesVecReal lost entries that are below the zero tolerance only in the scaled space (row scale exponent -67: B = I gave B^-1 e_1 = 0)')

fixed(['C13', 'C12'], '0351ab5', 'ratFromString (after 22b70e2) computed 10^exponent exactly for any exponent: a literal like 1e999999999 kept the rational readers busy practically forever (libFuzzer hang in lp-rational / mps-rational); exponents beyond +-100000 are rejected as malformed')

fixed(['C17', 'C07'], '1a8125c', 'SoPlexBase::operator= leaked the rational LP held by the assigned-to object (found by the copy operation with a rational LP present, LSan key leak:SoPlexBase::setIntParam|SoPlexBase::_syncLPRational)')

fixed(['C03', 'C04'], 'e57a248', '_untransformEquality evaluated sol._redCost[col].str() / sol._dual[row].str() for a debug message although both vectors can be empty (eqtrans=1 with a basis but no dual solution): SIGSEGV in the exact solve')

fixed(['C03'], '25fe3c6', '_untransformUnbounded read sol._primal[numOrigCols] of an empty solution when the unboundedness test ended with an error: SIGSEGV in the exact solve')
fixed(['C03'], 'a76c764', '_untransformUnbounded resized _basisStatusCols twice instead of _basisStatusRows in the branch without a result')

fixed(['C13'], '521ec1f', 'ratFromString accepted zero denominators ("1/0"): invalid Rational stored by the rational LP/MPS readers, boost::domain_error out of readFile() or a stack overflow inside GMP later')

fixed(['C11', 'C03', 'C04'], '4010765', 'rational sparse solveLleft (behind SLUFactorRational::solveLeft(SSVector&, SVector&) and getBasisInverseRowRational) queued an index twice after exact cancellation: inexact inverse rows, duplicate indices, heap-buffer-overflow')

fixed(['C18', 'C17'], '3302c21', 'follow-up to ac19462: SLUFactor::assign copied the row-wise L factor with l.start[l.firstUpdate] entries; after a factorization that ended singular the row-wise arrays are leftovers of the previous one and the copy read beyond them (TSan heap-use-after-free in the C18 thorough run)')
fixed(['C13'], 'dd99e13', 'LPFhasKeyword matched a "]" of the input against the closing bracket of the keyword pattern ("Maximize]") and then searched for "]" beyond the string literal: global-buffer-overflow in the LP reader')
fixed(['C13'], 'c5b4214', 'real MPS reader accepted nan / inf / overflowing numbers through atof(): non-finite coefficients, sides and bounds; exception XMAISM14 out of optimize(), heap-buffer-overflow in the bound flipping ratio test')

fixed(['C06', 'C04'], '34e27f7', 'getBasisInd() read stale basis ids after rows/columns were removed while a basis is held (wrong or duplicate indices, SPxException "Invalid index"); a known finding of C06/C04 until the end of the work')
fixed(['C08', 'C02', 'C01'], '1b7c70a', 'the simplifier compared the objective of an empty column with 0 using epsZero(); a rounding residue 2e-16 left by aggregations made default SoPlex report a bounded LP (optimum 0) as UNBOUNDED (findings/C08_verdict_unbounded_on_bounded.lp; C08 verdict.UNBOUNDED:{})')
fixed(['C01', 'C08', 'C02'], '5132c2b', 'trivialHeuristic()/propagatePseudoobj() of the simplifier used the objective offset with the sign of the LP sense in maximization-form sums; after a multi-aggregation changed the offset a feasible minimization LP was reported INFEASIBLE by default SoPlex (findings/C01_default_infeasible_multiaggregation_offset.cpp; C01 complete.INFEASIBLE:{}+needs{simplifier})')
fixed(['C08'], '6b111dc', 'MultiAggregationPS added obj*const/a to the objective offset with the coefficient of the minimization form: for a maximization LP reduced optimum + getObjoffset() != original optimum (C08 objoffset.(okay|vanished):{...MultiAggregation...}; a known finding until the last hours)')
fixed(['C08'], '40774d1', 'removeEmpty() fixed an empty column at a bound although a row singleton had made its bounds contradictory: the simplifier "solved" an infeasible LP outright (VANISHED), e.g. min -4y s.t. 8x-9y=-8, 4x-6y>=9, x>=2, y>=0 (findings/C08_vanished_infeasible.lp; C08 verdict.VANISHED:{}; a known finding until the last hours)')
fixed(['C08', 'C01', 'C09'], '5c435cd', 'AggregationPS::execute() swapped the basis status to the aggregated variable without moving the dual of the aggregated row (postsolved r != c - A^T y; C08 postsolve.redcost.*:{...Aggregation...}, C01/C09 cert.redcost:{}+needs{simplifier}) and swapped whenever a FIXED variable had one differing bound, whatever the sign of its reduced cost (rcsign/compl-col, XMAISM exceptions); 52 of 58 violation events of a 6000-case C08 run; known findings until the last hours')
fixed(['C13'], 'a6cf8d4', 'the LP file reader stored IEEE infinities for literals with a huge exponent (atof overflow): `4.0e+011110 <= x0` gave the lower bound inf next to the upper bound 1e100 and optimize() threw XMAISM14 (C13 lp-real:optimize-exception:soplex::SPxInternalCodeException; found by the libFuzzer stage in the last hours)')

# ------------------------------------------------------------------ open findings
UND = r'(ABORT_CYCLING|RUNNING|UNKNOWN|ERROR|SINGULAR|NO_PROBLEM|NOT_INIT|OPTIMAL_UNSCALED_VIOLATIONS)'
# --- simplex core
open_(SOLVE, r'(netlib\.)?(cert\.|reuse\.|resolve\.|.*\.resume\.|.*wrong-verdict|complete\.|.*harmless|basis\.|resolve-after|copy-|twins|dependent).*:\{.*solution_polishing=[12].*\}.*',
      'solution polishing (solution_polishing=1|2) returns OPTIMAL with slack != Ax, bound violations or a wrong status after its extra pivots', regex=True,
      repro='./vcheck C01 (any seed): keys C01:cert.slack:{...solution_polishing=...}')
open_(['C04', 'C06', 'C16', 'C14'], r'(reuse\.[a-z\-]+|resolve\.status|[a-z]+\.resume|objlimit\.harmless-changes-status|state\.resolve-status)\.' + UND + r':.*',
      'warm-started / resumed solves occasionally end undecided (ABORT_CYCLING, or RUNNING/UNKNOWN after an internal exception such as XLEAVE04) where a solve from scratch decides', regex=True)
open_(['C06'], r'resolve\.(status\.[A-Z_]+|objective)\+nonbasic-free-row:.*',
      'after changeRange*/changeLhs/changeRhs made a nonbasic row free (or relaxed its active side to infinity) the warm-started solve keeps the row nonbasic with a nonzero dual and reports OPTIMAL in 0 iterations for an unbounded LP', regex=True,
      repro='history: min, solve, setIntParam(OBJSENSE,max), changeRangeReal(vec) making the only row free, optimize -> OPTIMAL 150 (LP is unbounded)')
open_(['C05'], r'(mult\.(value|nonfinite)\.rep=row\.(scaled|unscaled)(\.internal)?|(invcol|solve)\.(residual|nonfinite)\.rep=row\.scaled(\.internal)?):.*',
      'row representation: multBasis returns wrong values with and without scaling (accumulates into a DSVector with duplicate indices, adds scaled and unscaled columns), and on a scaled LP getBasisInverseColReal (drops an spxLdexp result) and getBasisInverseTimesVecReal are wrong - upstream "@todo does not work correctly"; the other queries of the row representation are judged normally', regex=True)
open_(['C05'], r'crash:.*(getBasisInverseColReal|getBasisInverseRowReal|getRowScaleExp).*',
      'row representation: getBasisInverseColReal indexes the scale-exponent array with a basis index (heap-buffer-overflow / use-after-free)', regex=True)
open_(['C05'], r'crash:(nonrepro-)?signal:SIG(SEGV|ABRT|FPE|BUS):.*', 'row representation: the out-of-bounds writes of getBasisInverseColReal corrupt the heap of the non-sanitized volume build; the process dies later at an unrelated place (not reproducible per case)', regex=True)
open_(SOLVE + ['C14'], r'(netlib\.)?(history-dependent|complete|cert|verdict|wrong-verdict|reuse|resolve|basis|[a-z]+\.resume|state)[A-Za-z0-9_.\-]*:\{[^}]*starter=[123][^}]*\}.*',
      'nonbasic free rows are never priced: SPxSolverBase::coTest() has no P_FREE case (and entering one throws XENTER02 "not yet debugged"), so a start basis with a nonbasic free row - produced by the weight/sum/vector starters (minimal cell contains starter=1|2|3) - is reported OPTIMAL with a nonzero dual on the free row, e.g. for an unbounded LP, or ends RUNNING/ERROR after the internal exception (same root cause as the C06 free-row warm start finding; 87 % of the disagreements of the design-phase calibration)', regex=True,
      repro='findings/C17_starter_free_row_optimal.cpp')
open_(['C01', 'C09'], r'(user\.)?cert\.(slack|side):\{\}\+needs\{simplifier,scaler\}',
      'default configuration on a badly scaled LP that presolve solves completely (forcing row + redundant rows, on the persistently scaled LP): the slack of a removed ranged row is reported at the wrong side (rhs instead of lhs, 10 % of the activity off); x and the objective are right', regex=True,
      repro='findings/C01_default_slack_wrong_side.cpp')
open_(['C01'], r'cert\.(bound|side|slack):\{[^}]*scaler=0[^}]*\}.*',
      'scaling switched off (scaler=0) on badly scaled LPs: OPTIMAL is reported with sides / bounds violated far beyond the tolerance (0.375 and 40 on rows whose terms are below 1e6), with the Harris as well as the textbook ratio test; the final verification does not catch it', regex=True,
      repro='./vcheck C01 --tier thorough: keys C01:cert.side:{ratiotester=1,scaler=0}, C01:cert.side:{ensureray=1,ratiotester=1,representation=1,scaler=0}')
open_(['C01'], r'(netlib\.)?cert\.[a-z\-]+\+terminated-despite-violations:.*',
      'SPxSolverBase::solve() (spxsolve.hpp, both the ENTER and the LEAVE loop): when the algorithm has looped more than twice and the bound, side or objective range of the LP is >= 1e9 it prints "termination despite violations (numerical difficulties ...)" and sets the status to OPTIMAL whatever infeasibility remains; SoPlex then reports OPTIMAL with a row violated by 6 on sides of size 50 (badly scaled 9x3 LP, primal simplex, Harris ratio test, row representation); the key carries the annotation only when that message was printed during the solve', regex=True,
      repro='findings/C01_terminated_despite_violations.json (./vcheck C01 --replay <file>)')
open_(['C01'], r'(netlib\.)?complete\.NO_PROBLEM:.*',
      'a solve from scratch can end with status NO_PROBLEM (netlib scfxm1 with {min_markowitz=0.5,pricer=2,ratiotester=1,representation_switch=0.5}): the internal fallback after numerical trouble leaves the status unset', regex=True,
      repro='./vcheck C01 --tier thorough: key C01:netlib.complete.NO_PROBLEM:{min_markowitz=0.5,pricer=2,ratiotester=1,representation_switch=0.5}')
open_(['C01'], r'cert\.(bound|side):\{[^}]*ratiotester=0[^}]*\}.*',
      'textbook ratio test (ratiotester=0) on badly scaled LPs (with or without scaling): OPTIMAL is reported with a bound violated far beyond the tolerance (2e-3 on a variable boxed in +-7e-4, 0.05 in another instance); the final verification does not catch it', regex=True,
      repro='./vcheck C01 --seed 7: key C01:cert.bound:{ratiotester=0,representation_switch=5,scaler=0}')
open_(['C02'], r'(netlib\.)?ray:\{[^}]*representation=2[^}]*\}.*',
      'row representation: the primal ray returned for an unbounded LP (netlib gas11, ETA updates, Harris ratio test) does not improve the objective (c.d has the wrong sign / is zero)', regex=True,
      repro='./vcheck C02 --seed 42: key C02:netlib.ray:{ensureray=1,factor_update_type=0,pricer=4,ratiotester=1,representation=2}')
open_(['C04'], r'basis\.singular\.after-INFEASIBLE:\{[^}]*representation=2[^}]*\}.*',
      'row representation: after a solve ending INFEASIBLE the basis reported through getBasis() (hasBasis() true) can be exactly singular', regex=True,
      repro='./vcheck C04 --seed 2: key C04:basis.singular.after-INFEASIBLE:{algorithm=0,min_markowitz=0.99,pricer=1,ratiotester=1,representation=2,scaler=1}')
open_(['C17'], r'resolve-after-clearBasis-differs:.*',
      'solving the same unmodified object again after clearBasis() is not a replica of the first solve (different iteration count / vertex in 1-3% of the LPs): per-solve state survives clearBasis()', regex=True)
# --- exact solver
open_(['C03'], r'undecided\.[A-Z_]+:\{[^}]+\}.*',
      'exact solves with NON-default exact-solver options that keep rational reconstruction or factorization enabled can end undecided: observed ABORT_ITER with recovery_mechanism=1 (the refinement loop burns the iteration limit on a 10x10 LP), ERROR with {precision_boosting=0} in real-only sync mode and with {ratrec=0,testdualinf=1} (truth INFEASIBLE).  The default options (empty minimal cell) are not covered by this entry', regex=True,
      repro='./vcheck C03 --seed 7 and --seed 3: keys C03:undecided.ABORT_ITER:{recovery_mechanism=1}+onlyreal, C03:undecided.ERROR:{precision_boosting=0}+onlyreal, C03:undecided.ERROR:{ratrec=0,testdualinf=1}')
open_(['C03'], r'undecided\.ERROR:\{\}\+onlyreal',
      'default exact options, real-only sync mode: an LP whose double image is unbounded only by a rounding-level slope (1x6, coefficients 1/3, 2/3, 7000000049/3 rounded to doubles) is not decided: the floating-point solves keep reporting optimal, precision boosting runs into multiprecision_limit and the solve ends with ERROR', regex=True,
      repro='findings/C03_default_onlyreal_undecided.cpp')
open_(['C03', 'C04', 'C11'], r'.*lifting=1.*',
      'exact solve with lifting=1: heap-buffer-overflow / use-after-free in _lowerFinite/_transformEquality (bound-type arrays not resized for the lifted LP), wrong verdicts, invalid Farkas proofs and rays', regex=True)
open_(['C03'], r'objvalue.*:\{.*iterative_refinement=0.*\}.*',
      'pure precision boosting (iterative_refinement=0): objValueRational() is 0 / misses the offset (objective value not computed on that path)', regex=True)
# --- presolve (stand-alone SPxMainSM)
open_(['C08'], r'postsolve\.(rcsign|compl-col|compl-row|dualsign)\.(okay|vanished):\{[^}]*Aggregation[^}]*DoubletonEquation[^}]*FreeColSingleton[^}]*\}',
      'DoubletonEquationPS (singleton column combined with a doubleton equation, after FreeColSingleton) leaves the other column FIXED at its lower bound with a reduced cost of the wrong sign (degenerate vertex, all x = 0); the following AggregationPS hands that sign on to the aggregated variable (3x3 LP, keepbounds, presolve seed 498); stationarity r = c - A^T y holds', regex=True,
      repro='findings/C08_doubleton_freecolsingleton_then_aggregation.lp')
open_(['C08'], r'postsolve\.(rcsign|compl-col|compl-row|dualsign)\.(okay|vanished):\{[^}]*Aggregation[^}]*ForceConstraint[^}]*\}',
      'ForceConstraintPS after an aggregation tightened a bound to 3.0000000000000004 next to the other bound 3: the column counts as "fixed by this row" (bounds compared with epsZero), its positive reduced cost is taken as a violation at the "upper" bound, the column is made basic and the forcing row gets a dual of the wrong sign (2x3 LP, keepbounds, presolve seed 167)', regex=True,
      repro='findings/C08_forceconstraint_after_aggregation_ulp_bounds.mps')
open_(['C08'], r'(postsolve\.(rcsign|compl-col|compl-row|dualsign|redcost)|basis\.(count|bound|singular))\.(okay|vanished):\{[^}]*TightenBounds[^}]*\}',
      'TightenBoundsPS: dual postsolve / basis status after bound tightening is incomplete (nonbasic at a bound the original LP does not have, wrong number of basic variables)', regex=True)
open_(['C08'], r'basis\.(bound|singular|count)\.(okay|vanished):\{[^}]*\}',
      'postsolved basis can carry ON_LOWER/ON_UPPER/ZERO on a variable whose original bound is infinite / finite (FixVariable, FreeColSingleton, ZeroObjColSingleton, redundant-bound removal without PostStep)', regex=True)
open_(['C08'], r'postsolve\.(rcsign|compl-col)\.(okay|vanished):\{[^}]*FreeColSingleton[^}]*RowSingleton[^}]*\}',
      'FreeColSingletonPS followed by RowSingletonPS: the reduced cost of a column whose bound was moved by the row singleton keeps a sign that is only valid for the tightened (finite) bound although the original bound is infinite', regex=True,
      repro='findings/C08_rcsign_freecolsingleton_rowsingleton.lp (keepbounds=true)')
open_(['C08'], r'postsolve\.(compl-row|dualsign|rcsign|compl-col)\.(okay|vanished):\{[^}]*RowSingleton[^}]*\}',
      'RowSingletonPS: the dual of a removed singleton row gets the wrong sign / is not complementary for a row that is one-sided in the original LP, or the reduced cost stays on the column although the bound it prices came from the singleton row and the original bound is infinite (minimal LP 4x4 with FixBounds, FixVariable, RowSingleton)', regex=True)
# --- file I/O
open_(['C14', 'C12', 'C09'], r'(exception\.[A-Za-z]+\.XMPSWR02.*|leak:SoPlexBase::wri.*)', 'the MPS writer throws SPxInternalCodeException("XMPSWR02 This should never happen") for a free row (lhs=-inf, rhs=+inf) instead of writing it or returning false; the unscaled LP copy made by writeFile() leaks on that path', regex=True)
# entries contributed by the delegated harness checks (one fragment per property, same format)
import glob
for frag in sorted(glob.glob(os.path.join(V, 'known_findings.d', '*.json'))):
    try:
        for e in json.load(open(frag)).get('findings', []):
            e.setdefault('status', 'open')
            F.append(e)
    except Exception as ex:
        print('cannot read', frag, ex)
# the same list in the line format of the brief (one line per property of an entry); both files are generated, never written at check time
lines = []
for f in F:
    props = f['property'] if isinstance(f['property'], list) else [f['property']]
    if f['status'] == 'fixed':
        f['lines'] = ['fixed: property=%s %s %s' % (p_, f['commit'], f['what']) for p_ in props]
    else:
        f['lines'] = ['KNOWN-FINDING: property=%s %s [key %s%s]' % (p_, f['what'], f['key'], ' (regex)' if f.get('regex') else '') for p_ in props]
    lines += f['lines']
json.dump(dict(findings=F), open(os.path.join(V, 'known_findings.json'), 'w'), indent=1)
open(os.path.join(V, 'known_findings.txt'), 'w').write('\n'.join(lines) + '\n')
print('wrote', len(F), 'entries,', len(lines), 'lines')
