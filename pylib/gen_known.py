#!/usr/bin/env python3
"""Writes known_findings.json (the committed list of genuine defects of the pinned tree that are recorded, not repaired, plus the
record of repaired ones).  Edit THIS file, then run it.  Never written at check time."""
import json, os
V = os.path.dirname(os.path.dirname(os.path.abspath(__file__)))
SOLVE = ['C01', 'C02', 'C04', 'C05', 'C06', 'C09', 'C16', 'C17']
F = []


def open_(prop, key, what, regex=False, repro=''):
    F.append(dict(property=prop, key=key, regex=regex, status='open', what=what, repro=repro))


def fixed(prop, commit, what):
    F.append(dict(property=prop, key='', status='fixed', commit=commit, what=what))


# ------------------------------------------------------------------ repaired (fix: commits in /repo); these suppress nothing
fixed(['C01', 'C10'], '2fb459a', 'CLUFactor::solveUpdateLeft (sparse variant, product-form update) used the row index as loop bound: segfault / wrong solves with factor_update_type=0')
fixed(['C04'], 'b764424', 'after a solve with internal (non-persistent) scaling and no simplifier the solver held no basis: getBasis() reported more basic variables than rows')
fixed(['C06', 'C09'], '46fdfab', 'vector versions of changeLower/Upper/Lhs/Rhs scaled +-infinity in a persistently scaled LP (finite bound 2.5e99, wrong row type)')
fixed(['C06', 'C09'], 'b9e2679', 'getLowerReal/getUpperReal/getLhsReal/getRhsReal (vector getters) unscaled +-infinity on a persistently scaled LP (returned e.g. 5e99)')
fixed(['C06'], 'd3e5c49', 'clearLPReal()/clearLPRational() reset the LP sense to MAXIMIZE while the OBJSENSE parameter kept MINIMIZE')
fixed(['C01', 'C09', 'C19'], '14b19fe', 'SSVectorBase::assign2productShort set num before clear(): out-of-bounds writes, segfault in SPxLeastSqSC::scale (scaler=5)')
fixed(['C03'], 'c56a743', 'objValueRational() (and objValueReal() after an exact solve) ignored the objective offset')
fixed(['C08', 'C01'], 'c6df7d3', 'postsolve of doubleton and multi-aggregation left the slacks of the other rows at their reduced-LP values (and set the aggregated row slack to 0)')
fixed(['C07', 'C09'], '044eacf', 'changeObjRational() (3 overloads) ignored persistent scaling of the real LP: objReal() returned value * 2^colexp')
fixed(['C07'], '84b6c95', 'syncLPRational() / real-only exact solves copied the persistently scaled real LP into the rational LP')
fixed(['C14'], 'bd14627', 'readBasis() built default names x0, x0x1, x0x1x2, ... so basis files written with default names were rejected')
fixed(['C07', 'C20'], '6ed0c9c', 'mpq_t array overloads of LPRowSetBase/LPColSetBase::add() did not grow scaleExp: heap-buffer-overflow in a later remove()')

fixed(['C13', 'C01'], '289d1ce', 'readLPF() (real and rational) leaked the internally created NameSet objects (placement new without destructor call)')
fixed(['C15'], '8545d4c', 'setRealParam() accepted NaN for every real parameter (stored, or SIGFPE in GMP for feastol/opttol/infty/maxscaleincr)')
fixed(['C15'], '58e96b2', 'rejected setIntParam(SIMPLIFIER, PAPILO) in a non-PaPILO build still re-pointed the active simplifier')
fixed(['C15'], '7ed6134', 'resetSettings() did not reset the random seed')
fixed(['C15', 'C13'], '8678150', 'settings parsers stepped over the terminating NUL of a line ending after the type or the name')
fixed(['C15', 'C13'], '309920a', 'std::stoi/stod/stoul exceptions escaped from loadSettingsFile()/parseSettingsString()')
fixed(['C15', 'C13'], 'deb3b05', 'std::stod exception escaped from parseSettingsString() for real parameters')
fixed(['C15'], 'e28a1fa', 'subnormal real parameter values written by saveSettingsFile() could not be loaded back (std::stod throws on underflow)')
fixed(['C15'], '1d863e0', 'settings parsers accepted any non-numeric text as the boolean value false')
fixed(['C15'], 'e1b81b2', 'settings parsers accepted any uint parameter name starting with random_seed')
fixed(['C15'], '9c5c7ca', 'setSettings() stored the new settings before calling the setters: with init=false nothing was applied, and only-real -> auto sync mode segfaulted')
fixed(['C15'], 'dc35f91', 'leastsq_maxrounds / leastsq_acrcy were applied only if the least squares scaler was currently selected')

fixed(['C17'], 'ac19462', 'SLUFactor::assign tested the target\'s stale l.rval instead of the source\'s: assigning a never-solved SoPlex object to a used one crashed (memcpy from null with uninitialised length); found by the memcheck stage')
fixed(SOLVE + ['C14'], '96460ce', 'SPxWeightST::initPrefs read row[0] of an empty array for an LP without rows (starter=weight/sum/vector): SIGSEGV')
fixed(['C17'], '2c7ec70', 'SoPlexBase::operator= / copy constructor left _optimizeCalls/_unscaleCalls uninitialised; _reapplyPersistentScaling() of the copy branched on them (memcheck: conditional jump on uninitialised value)')

fixed(['C17'], 'a80c076', 'the pricer and ratio tester cloned into a copied solver kept the Tolerances object of the source (SPxSolverBase::setTolerances did not reach them): changing tolerances of the source changed the next solve of the copy')

# ------------------------------------------------------------------ open findings
UND = r'(ABORT_CYCLING|RUNNING|UNKNOWN|ERROR|SINGULAR)'
# --- simplex core
open_(SOLVE, r'(netlib\.)?(cert\.|reuse\.|resolve\.|.*\.resume\.|.*wrong-verdict|complete\.|.*harmless|basis\.|resolve-after|copy-|twins|dependent).*:\{.*solution_polishing=[12].*\}.*',
      'solution polishing (solution_polishing=1|2) returns OPTIMAL with slack != Ax, bound violations or a wrong status after its extra pivots', regex=True,
      repro='./vcheck C01 (any seed): keys C01:cert.slack:{...solution_polishing=...}')
open_(['C01'], r'cert\.redcost:\{\}\+needs\{simplifier\}',
      'default configuration: reduced cost != c - A^T y after presolve (dual postsolve of an aggregation whose basis status was swapped; same root cause as the C08 Aggregation finding); x, slacks and objective are right', regex=True)
open_(['C04', 'C06', 'C16', 'C14'], r'(reuse\.[a-z\-]+|resolve\.status|[a-z]+\.resume|objlimit\.harmless-changes-status|state\.resolve-status)\.' + UND + r':.*',
      'warm-started / resumed solves occasionally end undecided (ABORT_CYCLING, or RUNNING/UNKNOWN after an internal exception such as XLEAVE04) where a solve from scratch decides', regex=True)
open_(['C06'], r'resolve\.status\.OPTIMAL:.*',
      'after changeRange*/changeLhs/changeRhs made a nonbasic row free (or relaxed its active side to infinity) the warm-started solve keeps the row nonbasic with a nonzero dual and reports OPTIMAL in 0 iterations for an unbounded LP', regex=True,
      repro='history: min, solve, setIntParam(OBJSENSE,max), changeRangeReal(vec) making the only row free, optimize -> OPTIMAL 150 (LP is unbounded)')
open_(['C06'], r'(basis\.bind\.after\.remove.*|exception\.remove.*Invalid.*)',
      'after removing rows while the LP is loaded with a basis, getBasisInd() reads stale basis ids (wrong indices or SPxException "Invalid index") although hasBasis() stays true', regex=True)
open_(['C05'], r'.*\.rep=row\..*',
      'row representation: getBasisInverseRowReal/ColReal/TimesVecReal, multBasis, multBasisTranspose return wrong values (multBasis accumulates into a DSVector with duplicate indices and adds scaled and unscaled columns; getBasisInverseColReal drops an spxLdexp result) - upstream "@todo does not work correctly"', regex=True)
open_(['C05'], r'crash:.*(getBasisInverseColReal|getBasisInverseRowReal|getRowScaleExp).*',
      'row representation: getBasisInverseColReal indexes the scale-exponent array with a basis index (heap-buffer-overflow / use-after-free)', regex=True)
open_(['C05'], r'crash:(nonrepro-)?signal:SIG(SEGV|ABRT|FPE|BUS):.*', 'row representation: the out-of-bounds writes of getBasisInverseColReal corrupt the heap of the non-sanitized volume build; the process dies later at an unrelated place (not reproducible per case)', regex=True)
open_(['C17', 'C01', 'C02'], r'(history-dependent\.status\.OPTIMAL|complete\.OPTIMAL|cert\.(dualsign|rowdual)[a-z.\-]*):\{[^}]*starter=[123][^}]*\}.*',
      'nonbasic free rows are never priced: SPxSolverBase::coTest() has no P_FREE case (and entering one throws XENTER02 "not yet debugged"), so a basis with a nonbasic free row - produced by the weight/sum/vector starters - is reported OPTIMAL with a nonzero dual on the free row, e.g. for an unbounded LP (same root cause as the C06 free-row warm start finding)', regex=True,
      repro='findings/C17_starter_free_row_optimal.cpp')
open_(['C17'], r'resolve-after-clearBasis-differs:.*',
      'solving the same unmodified object again after clearBasis() is not a replica of the first solve (different iteration count / vertex in 1-3% of the LPs): per-solve state survives clearBasis()', regex=True)
# --- exact solver
open_(['C03', 'C04', 'C11'], r'.*lifting=1.*',
      'exact solve with lifting=1: heap-buffer-overflow / use-after-free in _lowerFinite/_transformEquality (bound-type arrays not resized for the lifted LP), wrong verdicts, invalid Farkas proofs and rays', regex=True)
open_(['C03'], r'objvalue.*:\{.*iterative_refinement=0.*\}.*',
      'pure precision boosting (iterative_refinement=0): objValueRational() is 0 / misses the offset (objective value not computed on that path)', regex=True)
# --- presolve (stand-alone SPxMainSM)
open_(['C08'], r'postsolve\.(redcost|rcsign|compl-col|compl-row|dualsign)\.(okay|vanished):\{[^}]*Aggregation[^}]*\}',
      'AggregationPS/MultiAggregationPS: when the basis status is swapped to the aggregated variable the dual of the aggregated row is not recomputed (redcost != c - A^T y, wrong dual signs)', regex=True)
open_(['C08'], r'(postsolve\.(rcsign|compl-col|compl-row|dualsign|redcost)|basis\.(count|bound|singular))\.(okay|vanished):\{[^}]*TightenBounds[^}]*\}',
      'TightenBoundsPS: dual postsolve / basis status after bound tightening is incomplete (nonbasic at a bound the original LP does not have, wrong number of basic variables)', regex=True)
open_(['C08'], r'basis\.(bound|singular|count)\.(okay|vanished):\{[^}]*\}',
      'postsolved basis can carry ON_LOWER/ON_UPPER/ZERO on a variable whose original bound is infinite / finite (FixVariable, FreeColSingleton, ZeroObjColSingleton, redundant-bound removal without PostStep)', regex=True)
open_(['C08'], r'postsolve\.(compl-row|dualsign)\.(okay|vanished):\{[^}]*RowSingleton[^}]*\}',
      'RowSingletonPS: the dual of a removed singleton row gets the wrong sign / is not complementary for a row that is one-sided in the original LP', regex=True)
open_(['C08'], r'objoffset\.(okay|vanished):\{[^}]*MultiAggregation[^}]*\}',
      'multi-aggregation does not add the constant part of the substituted objective term to the objective offset (reduced optimum + getObjoffset() != original optimum)', regex=True)
open_(['C08'], 'verdict.UNBOUNDED-on-infeasible:{}', 'simplifier reports UNBOUNDED for an LP that is (primal) infeasible and dual infeasible')
open_(['C08'], 'verdict.VANISHED:{}', 'simplifier "solves" an infeasible LP outright (VANISHED), e.g. min -4y s.t. 8x-9y=-8, 4x-6y>=9, x>=2, y>=0',
      repro='findings/C08_vanished_infeasible.lp')
open_(['C08'], 'reduced-class:{}', 'reduced LP is unbounded/infeasible (even relaxed by 1e-9) although the original has a certified finite optimum',
      repro='findings/C08_reduced_unbounded.lp')
# --- file I/O
open_(['C14', 'C12', 'C09'], r'(exception\.[A-Za-z]+\.XMPSWR02.*|leak:SoPlexBase::wri.*)', 'the MPS writer throws SPxInternalCodeException("XMPSWR02 This should never happen") for a free row (lhs=-inf, rhs=+inf) instead of writing it or returning false; the unscaled LP copy made by writeFile() leaks on that path', regex=True)
# entries contributed by the delegated harness checks (one fragment per property, same format)
import glob
for frag in sorted(glob.glob(os.path.join(V, 'known_findings.d', '*.json'))):
    try:
        for e in json.load(open(frag)).get('findings', []):
            e.setdefault('status', 'open')
            F.append(e)
    except Exception as ex:
        print('cannot read', frag, ex)
json.dump(dict(findings=F), open(os.path.join(V, 'known_findings.json'), 'w'), indent=1)
print('wrote', len(F), 'entries')
