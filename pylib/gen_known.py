#!/usr/bin/env python3
"""Writes known_findings.json (the committed list of genuine defects of the pinned tree that are recorded, not repaired, plus the
record of repaired ones).  Edit THIS file, then run it.  Never written at check time."""
import json, os
V = os.path.dirname(os.path.dirname(os.path.abspath(__file__)))
SOLVE = ['C01', 'C02', 'C04', 'C05', 'C06', 'C09', 'C16', 'C17']
F = []


def open_(prop, key, what, regex=False, repro=''):
    F.append(dict(property=prop, key=key, regex=regex, status='open', what=what, repro=repro))


def fixed(prop, commit, what):
    F.append(dict(property=prop, key='', status='fixed', commit=commit, what=what))


# ------------------------------------------------------------------ repaired (fix: commits in /repo); these suppress nothing
fixed(['C01', 'C10'], '2fb459a', 'CLUFactor::solveUpdateLeft (sparse variant, product-form update) used the row index as loop bound: segfault / wrong solves with factor_update_type=0')
fixed(['C04'], 'b764424', 'after a solve with internal (non-persistent) scaling and no simplifier the solver held no basis: getBasis() reported more basic variables than rows')
fixed(['C06', 'C09'], '46fdfab', 'vector versions of changeLower/Upper/Lhs/Rhs scaled +-infinity in a persistently scaled LP (finite bound 2.5e99, wrong row type)')
fixed(['C06', 'C09'], 'b9e2679', 'getLowerReal/getUpperReal/getLhsReal/getRhsReal (vector getters) unscaled +-infinity on a persistently scaled LP (returned e.g. 5e99)')
fixed(['C06'], 'd3e5c49', 'clearLPReal()/clearLPRational() reset the LP sense to MAXIMIZE while the OBJSENSE parameter kept MINIMIZE')

# ------------------------------------------------------------------ open findings
# solution polishing: any certificate / reuse failure in a cell that switches polishing on
open_(SOLVE, r'(cert\.|reuse\.|resolve\.|.*\.resume\.|.*wrong-verdict|complete\.).*:\{.*solution_polishing=[12].*\}.*',
      'solution polishing (solution_polishing=1|2) returns OPTIMAL with slack != Ax, bound violations or a wrong status after its extra pivots', regex=True,
      repro='./vcheck C01 (any seed): keys C01:cert.slack:{...solution_polishing=...}')
open_(SOLVE, r'crash:.*SPxWeightST::generate\|SPxSolverBase::solve',
      'SPxWeightST::generate reads out of bounds for an LP without rows (starter=weight, row representation)', regex=True)
open_(['C01'], r'cert\.(slack|redcost):\{\}\+needs\{simplifier\}',
      'default configuration: when the simplifier removes the whole LP (or rows it proved redundant) the postsolved slack / reduced cost of a removed row/column is wrong although x and the objective are right (e.g. slack 0 for activity 9)', regex=True,
      repro='findings/C01_vanished_slack.lp')
json.dump(dict(findings=F), open(os.path.join(V, 'known_findings.json'), 'w'), indent=1)
print('wrote', len(F), 'entries')
