"""Custom stages of property C13 (file readers): enumeration completeness, libFuzzer, valgrind memcheck replay, strace EIO injection.
Called by pylib/core.py with a ctx dict (see HARNESS_GUIDE.md, "Custom stages")."""
import os, re, sys, json, glob, gzip, time, shutil, base64, subprocess, concurrent.futures

ENTRIES = ['lp-real', 'lp-rational', 'mps-real', 'mps-rational', 'basis', 'settings-file', 'settings-string']
KIND = ['l', 'l', 'm', 'm', 'b', 's', 's']
MAX_RESTARTS = 30


def _cnt(ctx, name, v=1):
    with ctx['lock']:
        c = ctx['agg']['counters']
        c[name] = c.get(name, 0) + v


def _viol(ctx, key, detail, stderr='', replay=None, case=-1):
    with ctx['lock']:
        ctx['agg']['viols'].append(dict(ev='viol', case=case, key=key, detail=detail, _stage=ctx['stage'], stderr=(stderr or '')[-6000:], replay=replay))


def _inconclusive(ctx, msg):
    with ctx['lock']:
        ctx['agg']['inconclusive'].append(msg)


def _instances(ctx):
    d = os.path.join(ctx['REPO'], 'check', 'instances')
    return d if os.path.isdir(d) else '/repo/check/instances'


# ------------------------------------------------------------------------------------------------ enumeration completeness
def enum_complete(ctx):
    agg = ctx['agg']
    total = int(agg['maxima'].get('enum.total', 0))
    done = len(agg['distinct'].get('enum', ()))
    agg['counters']['enum.total'] = total
    agg['counters']['enum.distinct_done'] = done
    if ctx['opts'].get('scale', 1.0) < 1.0:
        _inconclusive(ctx, 'scaled run: enumeration deliberately incomplete (%d of %d)' % (done, total))
        return
    budget = max([s_['cases'] for s_ in [ctx['stage']]] + [0])
    if total <= 0:
        agg['harness_errors'].append('the enumeration reported no size (enum.total missing)')
    elif done < total:
        agg['harness_errors'].append('deterministic enumeration incomplete: %d of %d items ran (raise ENUM_CASES in propdefs/read.py if the enumeration grew)' % (done, total))


# ------------------------------------------------------------------------------------------------ libFuzzer
def _fuzz_env(ctx, e, tmp, side, stats, guard, dump=None):
    env = ctx['san_env']('fuzz', ctx['workdir'])
    env['ASAN_OPTIONS'] = env['ASAN_OPTIONS'].replace('handle_abort=1', 'handle_abort=0')
    env['FZ_ENTRY'] = str(e)
    env['FZ_TMP'] = tmp
    env['FZ_SIDE'] = side
    env['FZ_STATS'] = stats
    env['FZ_MPS_GUARD'] = '1' if guard else '0'
    env.pop('FZ_DUMPSEEDS', None)
    if dump:
        env['FZ_DUMPSEEDS'] = dump
    return env


def _fuzz_key(ctx, e, stderr, rc):
    """-> (key or None, kind) for one (re-)run of an artifact"""
    m = re.search(r'C13-VIOLATION key=(\S+)', stderr)
    if m:
        return m.group(1), 'monitor'
    if 'libFuzzer: out-of-memory' in stderr or 'exceeds limit' in stderr and 'malloc' in stderr:
        return None, 'oom'
    ck = ctx['crash_key'](stderr, rc)
    if 'libFuzzer: timeout' in stderr:
        return 'C13:fuzz:%s:hang:%s' % (ENTRIES[e], ck.split(':')[-1]), 'timeout'
    if rc == 0:
        return None, 'clean'
    return 'C13:fuzz:%s:%s' % (ENTRIES[e], ck), 'crash'


def _parse_fuzz_log(txt):
    execs = cov = corp = 0
    m = re.search(r'stat::number_of_executed_units:\s*(\d+)', txt)
    if m:
        execs = int(m.group(1))
    else:
        ms = re.findall(r'^#(\d+)\s', txt, re.M)
        if ms:
            execs = int(ms[-1])
    ms = re.findall(r'cov: (\d+)', txt)
    if ms:
        cov = int(ms[-1])
    ms = re.findall(r'corp: (\d+)/', txt)
    if ms:
        corp = int(ms[-1])
    return execs, cov, corp


def _fuzz_one(ctx, e, j, runs, guard):
    wd = ctx['workdir']
    tagn = '%d_%d' % (e, j)
    corp = os.path.join(wd, 'corp' + tagn)
    art = os.path.join(wd, 'art' + tagn) + os.sep
    tmp = os.path.join(wd, 'tmp' + tagn)
    side = os.path.join(wd, 'side%s.txt' % tagn)
    for d in (corp, art, tmp):
        os.makedirs(d, exist_ok=True)
    inst = _instances(ctx)
    for f in sorted(os.listdir(inst)):
        p = os.path.join(inst, f)
        k = 'l' if f.endswith('.lp') else 'm'
        if k == KIND[e] and os.path.getsize(p) <= 4096:
            shutil.copy(p, os.path.join(corp, 'shipped-' + f))
    dictp = os.path.join(ctx['VERIF'], 'fuzz', 'read.dict')
    if e in (1, 3) and ctx.get('c13_rational_fpe'):
        # while ratFromString dies with SIGFPE on exponents beyond 308 every such dictionary token stops the rational fuzzers: leave them out
        dictp = os.path.join(wd, 'read_no_huge_exponents.dict')
        if not os.path.exists(dictp):
            keep = [l for l in open(os.path.join(ctx['VERIF'], 'fuzz', 'read.dict')) if not re.search(r'"(1e309|1e-400|1e999999|1e308)"', l)]
            open(dictp, 'w').write(''.join(keep))
    remaining, restarts, seen = runs, 0, set()
    tot_execs = cov = corpn = 0
    stats_sum = {}
    wall_cap = 5400 if ctx['tier'] == 'thorough' else 1200
    triaged = set()
    detect_leaks = 1
    launches = 0
    rc = 0
    while remaining > 0 and restarts <= MAX_RESTARTS and launches < 400:
        stats = os.path.join(wd, 'stats%s.%d.txt' % (tagn, launches))
        logp = os.path.join(wd, 'fuzz%s.%d.log' % (tagn, launches))
        env = _fuzz_env(ctx, e, tmp, side, stats, guard, dump=corp if launches == 0 else None)
        # while the tree leaks, the leaked memory piles up in the fuzzing process: run in slices that stay below the RSS limit
        this_runs = remaining if detect_leaks else min(remaining, 6000)
        cmd = [ctx['bin'], corp, '-runs=%d' % this_runs, '-seed=%d' % (ctx['seed'] + 1 + 7919 * launches + 104729 * j), '-max_len=4096', '-timeout=10',
               '-dict=' + dictp, '-artifact_prefix=' + art, '-print_final_stats=1', '-rss_limit_mb=4000', '-detect_leaks=%d' % detect_leaks]
        launches += 1
        with open(logp, 'wb') as lf:
            try:
                r = subprocess.run(cmd, stdout=lf, stderr=subprocess.STDOUT, env=env, cwd=tmp, timeout=wall_cap)
                rc = r.returncode
            except subprocess.TimeoutExpired:
                rc = None
        txt = open(logp, errors='replace').read()
        ex, cv, cp = _parse_fuzz_log(txt)
        tot_execs += ex
        cov, corpn = max(cov, cv), max(corpn, cp)
        try:
            for line in open(stats):
                a, b = line.rstrip('\n').split('\t')
                stats_sum[a] = stats_sum.get(a, 0) + int(b)
        except OSError:
            pass
        if rc is None:
            _inconclusive(ctx, 'libFuzzer %s: wall cap %ds reached after %d execs' % (ENTRIES[e], wall_cap, tot_execs))
            break
        if rc == 0:
            remaining -= max(ex, this_runs)
            continue
        # the process stopped on a finding: triage every new artifact by re-running it singly
        new = [a for a in sorted(glob.glob(art + '*')) if a not in triaged]
        if not new:
            with ctx['lock']:
                ctx['agg']['harness_errors'].append('libFuzzer %s exited rc=%s without an artifact: %s' % (ENTRIES[e], rc, txt[-1200:]))
            break
        for a in new:
            triaged.add(a)
            data = open(a, 'rb').read()
            if os.path.basename(a).startswith('leak-') and detect_leaks:
                # a leak stops libFuzzer at once; it is reported below, and the rest of this entry point's budget runs without libFuzzer's leak
                # pass (leaks are attributed per case by h_read's asan stages)
                detect_leaks = 0
                _cnt(ctx, 'fuzz.leak_detection_switched_off')
                _inconclusive(ctx, 'libFuzzer %s: a leak was found; the remaining runs of this entry point use -detect_leaks=0' % ENTRIES[e])
            env1 = _fuzz_env(ctx, e, tmp, side, stats + '.triage', guard)
            try:
                r1 = subprocess.run([ctx['bin'], a, '-timeout=10', '-rss_limit_mb=3000'], stdout=subprocess.PIPE, stderr=subprocess.STDOUT, env=env1, cwd=tmp, timeout=120)
                out1, rc1 = r1.stdout.decode(errors='replace'), r1.returncode
            except subprocess.TimeoutExpired:
                out1, rc1 = 'libFuzzer: timeout (driver)', -9
            key, kind = _fuzz_key(ctx, e, out1, rc1)
            repro = key is not None
            if not repro:
                key, kind = _fuzz_key(ctx, e, txt[-20000:], rc)
                if key is None or kind in ('timeout', 'oom'):
                    _inconclusive(ctx, 'libFuzzer %s: artifact %s (%s) did not reproduce when re-run singly' % (ENTRIES[e], os.path.basename(a), kind))
                    _cnt(ctx, 'fuzz.artifacts_not_reproduced')
                    continue
                key = key.replace('C13:fuzz:%s:' % ENTRIES[e], 'C13:fuzz:%s:nonrepro-' % ENTRIES[e])
            _cnt(ctx, 'fuzz.artifacts_triaged')
            if key in seen:
                continue
            seen.add(key)
            _viol(ctx, key, 'libFuzzer artifact %s (%d bytes) for entry point %s; reproduced singly: %s' % (os.path.basename(a), len(data), ENTRIES[e], repro),
                  stderr=out1 if repro else txt, replay=dict(entry=ENTRIES[e], fz_entry=e, mps_guard=guard, input_b64=base64.b64encode(data[:8192]).decode()))
        remaining -= max(ex, 1)
        restarts += 1
    if remaining > 0 and rc is not None and rc != 0:
        _inconclusive(ctx, 'libFuzzer %s: %d of %d runs not executed (stopped after %d restarts on findings)' % (ENTRIES[e], remaining, runs, restarts))
    # non-fatal monitor violations recorded by the target
    try:
        for line in open(side):
            parts = line.rstrip('\n').split('\t')
            if len(parts) >= 2 and parts[0] not in seen:
                seen.add(parts[0])
                _viol(ctx, parts[0], 'libFuzzer target monitor (entry point %s): %s' % (ENTRIES[e], parts[2] if len(parts) > 2 else ''),
                      replay=dict(entry=ENTRIES[e], fz_entry=e, mps_guard=guard, input_b64=parts[1]))
    except OSError:
        pass
    n = ENTRIES[e]
    _cnt(ctx, 'fuzz.execs.' + n, tot_execs)
    _cnt(ctx, 'fuzz.execs.total', tot_execs)
    _cnt(ctx, 'fuzz.restarts.' + n, restarts)
    _cnt(ctx, 'fuzz.corpus.' + n, corpn)
    with ctx['lock']:
        mx = ctx['agg']['maxima']
        mx['fuzz.cov.' + n] = max(mx.get('fuzz.cov.' + n, 0), cov)
        for k_, v_ in stats_sum.items():
            if k_.startswith('entry.') or k_.startswith('post.') or k_ == 'cases':
                c = ctx['agg']['counters']
                c['fuzz.' + k_] = c.get('fuzz.' + k_, 0) + v_
        ctx['agg']['distinct'].setdefault('fuzz_corpus', set()).update('%d:%s' % (e, os.path.basename(p)) for p in glob.glob(os.path.join(corp, '*')))


def _probe_eof_hang(ctx):
    """is the MPS reader's end-of-file hang present?  (then MPS/basis inputs are fuzzed with an ENDATA guard)"""
    wd = ctx['workdir']
    tmp = os.path.join(wd, 'probe')
    os.makedirs(tmp, exist_ok=True)
    p = os.path.join(tmp, 'trunc.mps')
    open(p, 'w').write('NAME T\nROWS\n N obj\n G r1\nCOLUMNS\n x1 obj 1 r1 1\n')
    env = _fuzz_env(ctx, 2, tmp, os.path.join(tmp, 'side.txt'), os.path.join(tmp, 'stats.txt'), False)
    try:
        r = subprocess.run([ctx['bin'], p, '-timeout=30'], stdout=subprocess.PIPE, stderr=subprocess.STDOUT, env=env, cwd=tmp, timeout=180)
        out, rc = r.stdout.decode(errors='replace'), r.returncode
    except subprocess.TimeoutExpired:
        out, rc = 'libFuzzer: timeout (driver)', -9
    m = re.search(r'C13-VIOLATION key=(C13:hang:\S+)', out)
    if m:
        _viol(ctx, m.group(1), 'an MPS file that ends before ENDATA never returns from the reader (libFuzzer probe input: 6 lines, no ENDATA); MPS and basis '
              'entry points are therefore fuzzed with an appended ENDATA line', stderr=out, replay=dict(entry='mps-real', input_b64=base64.b64encode(open(p, 'rb').read()).decode()))
        return True
    if rc != 0:
        with ctx['lock']:
            ctx['agg']['harness_errors'].append('libFuzzer probe run failed rc=%s: %s' % (rc, out[-1500:]))
    return False


def _probe_rational_fpe(ctx):
    """does a literal with an exponent beyond 308 kill the rational LP reader (SIGFPE inside GMP)?"""
    wd = ctx['workdir']
    tmp = os.path.join(wd, 'probe2')
    os.makedirs(tmp, exist_ok=True)
    p = os.path.join(tmp, 'hugeexp.lp')
    open(p, 'w').write('Minimize\n obj: 1e400 x1\nSubject To\n c1: x1 >= 1\nEnd\n')
    env = _fuzz_env(ctx, 1, tmp, os.path.join(tmp, 'side.txt'), os.path.join(tmp, 'stats.txt'), False)
    try:
        r = subprocess.run([ctx['bin'], p, '-timeout=30'], stdout=subprocess.PIPE, stderr=subprocess.STDOUT, env=env, cwd=tmp, timeout=180)
        out, rc = r.stdout.decode(errors='replace'), r.returncode
    except subprocess.TimeoutExpired:
        return False
    if rc != 0 and 'FPE' in out:
        key, kind = _fuzz_key(ctx, 1, out, rc)
        if key:
            _viol(ctx, key, 'libFuzzer probe input `obj: 1e400 x1` in rational read mode', stderr=out, replay=dict(entry='lp-rational', input_b64=base64.b64encode(open(p, 'rb').read()).decode()))
        return True
    return False


def libfuzzer(ctx):
    t0 = time.time()
    ctx['c13_rational_fpe'] = _probe_rational_fpe(ctx)
    if ctx['c13_rational_fpe']:
        _cnt(ctx, 'fuzz.rational_dictionary_without_huge_exponents')
        _inconclusive(ctx, 'rational entry points were fuzzed without the >308 exponent dictionary tokens because ratFromString dies with SIGFPE on them '
                      '(exponents of 1..6 digits are enumerated by h_read)')
    guard = _probe_eof_hang(ctx)
    _cnt(ctx, 'fuzz.mps_eof_guard', 1 if guard else 0)
    if guard:
        _inconclusive(ctx, 'MPS/basis entry points were fuzzed with an appended ENDATA line because the end-of-file hang of MPSInput::readLine is present '
                      '(truncated MPS/basis inputs are covered by the h_read enumeration and mutator, which survive hangs)')
    ppe = 2 if ctx['tier'] == 'thorough' else 1
    runs = max(200, ctx['cases'] // ppe)
    jobs = [(e, j) for j in range(ppe) for e in range(7)]
    with concurrent.futures.ThreadPoolExecutor(max_workers=min(len(jobs), max(1, ctx['opts']['jobs'] - 1))) as ex:
        futs = [ex.submit(_fuzz_one, ctx, e, j, runs, guard) for (e, j) in jobs]
        for f in futs:
            f.result()
    _cnt(ctx, 'fuzz.wall_s', int(time.time() - t0))


# ------------------------------------------------------------------------------------------------ valgrind memcheck replay
VG_KINDS = [('Conditional jump or move depends on uninitialised', 'uninit-cond'), ('Use of uninitialised value', 'uninit-use'), ('contains uninitialised byte', 'uninit-syscall'),
            ('points to uninitialised', 'uninit-syscall'), ('Invalid read', 'invalid-read'), ('Invalid write', 'invalid-write'), ('Invalid free', 'invalid-free'),
            ('Mismatched free', 'mismatched-free'), ('Source and destination overlap', 'overlap'), ('Process terminating', 'fatal-signal'), ('Argument', 'fishy-argument')]


def _clean_fn(fn):
    out, depth = '', 0
    for ch in fn:
        if ch in '<(':
            depth += 1
        elif ch in '>)':
            depth -= 1
        elif depth == 0:
            out += ch
    out = out.replace('soplex::', '').strip()
    out = re.sub(r'\s+const$', '', out)
    return out.split(' ')[-1] if ' ' in out else out


def _vg_blocks(txt):
    """-> list of (case marker or None, kind, top soplex frame, block text)"""
    out, cur_case, blk = [], None, []

    def flush():
        if not blk:
            return
        head = blk[0]
        kind = None
        for pat, k in VG_KINDS:
            if pat in head:
                kind = k
                break
        if kind:
            frame = 'unknown'
            for l in blk[1:]:
                m = re.match(r'\s+(?:at|by) 0x[0-9A-Fa-f]+: (.+?) \((?:in )?[^()]*\)$', l)
                if m and ('soplex::' in m.group(1) or 'zstr::' in m.group(1)) and 'c13::' not in m.group(1):
                    frame = _clean_fn(m.group(1))
                    break
            out.append((cur_case, kind, frame, '\n'.join(blk[:30])))
    for line in txt.splitlines():
        m = re.match(r'C13-CASE (\d+) (\S+) ?(.*)', line)
        if m:
            flush()
            blk = []
            cur_case = (int(m.group(1)), m.group(2), m.group(3))
            continue
        m = re.match(r'==\d+== ?(.*)', line)
        if not m:
            continue
        body = m.group(1)
        if body.strip() == '':
            flush()
            blk = []
        elif not body.startswith(' ') and not blk:
            blk = [body]
        elif blk:
            blk.append(body)
    flush()
    return out


def _collect_files(ctx, limit):
    """[(entry, variant, path)]: the seed pool first, then an even sample of the libFuzzer corpora of this run"""
    wd = ctx['workdir']
    seeds = os.path.join(wd, 'seeds')
    tmp = os.path.join(wd, 'tmp')
    os.makedirs(tmp, exist_ok=True)
    subprocess.run([ctx['bin'], '--prop', 'C13', '--sub', 'dumpseeds', '--out', seeds, '--tmpdir', tmp], stdout=subprocess.DEVNULL, stderr=subprocess.DEVNULL, timeout=300)
    files = []
    flip = 0
    for k, ents in (('l', (0, 1)), ('m', (2, 3)), ('b', (4,)), ('s', (5,))):
        for p in sorted(glob.glob(os.path.join(seeds, k, '*'))):
            if os.path.getsize(p) > 30000:
                continue
            for en in ents:
                flip += 1
                files.append((en, (flip & 1) | (2 if flip % 3 == 0 else 0), p))
    # settings strings and tiny edge files
    edge = os.path.join(wd, 'edge')
    os.makedirs(edge, exist_ok=True)
    for i, (en, txt) in enumerate([(6, 'int:iterlimit = 5'), (6, 'abc'), (6, 'int:iterlimit'), (6, 'int'), (6, 'bool:lifting = true # c'), (6, ''), (5, 'abc\n'), (5, 'x'), (5, 'int\n'),
                                   (5, 'int:iterlimit = 5\nabc\n'), (5, ''), (0, ''), (0, 'm'), (0, '\n'), (2, 'NAME\nENDATA\n'), (2, '*\nENDATA\n'), (4, 'NAME\nENDATA\n'), (0, 'max\n x\nst\n x<=1\nend')]):
        p = os.path.join(edge, 'edge%02d.txt' % i)
        open(p, 'w').write(txt)
        files.append((en, i & 1, p))
    corp = []
    for d in sorted(glob.glob(os.path.join(os.path.dirname(wd), 's*', 'corp*_*'))):
        m = re.search(r'corp(\d)_\d+$', d)
        if m:
            corp += [(int(m.group(1)), 0, p) for p in sorted(glob.glob(os.path.join(d, '*'))) if os.path.isfile(p)]
    room = max(0, limit - len(files))
    if corp and room:
        step = max(1, len(corp) // room)
        files += corp[::step][:room]
    return files[:max(limit, 1)]


def valgrind_subset(ctx):
    if not shutil.which('valgrind'):
        _inconclusive(ctx, 'valgrind not installed')
        return
    wd = ctx['workdir']
    files = _collect_files(ctx, ctx['cases'])
    _cnt(ctx, 'valgrind.files', len(files))
    per = 20
    lists = []
    for i in range(0, len(files), per):
        lp = os.path.join(wd, 'list%03d.txt' % (i // per))
        open(lp, 'w').write(''.join('%d %d %s\n' % f for f in files[i:i + per]))
        lists.append((lp, files[i:i + per]))

    def run(item):
        lp, fl = item
        tmp = lp + '.tmp'
        os.makedirs(tmp, exist_ok=True)
        cmd = ['valgrind', '--error-exitcode=9', '--track-origins=yes', '-q', '--num-callers=30', '--trace-children=yes', ctx['bin'], '--prop', 'C13', '--seed', '0', '--from', '0', '--to', str(len(fl)),
               '--tier', ctx['tier'], '--tmpdir', tmp, '--sub', 'list', '--list', lp, '--timescale', '50', '--mark', '1']
        try:
            r = subprocess.run(cmd, stdout=subprocess.PIPE, stderr=subprocess.PIPE, timeout=3600, cwd=tmp)
        except subprocess.TimeoutExpired:
            _inconclusive(ctx, 'valgrind process over %s timed out' % os.path.basename(lp))
            return
        err = r.stderr.decode(errors='replace')
        out = r.stdout.decode(errors='replace')
        blocks = _vg_blocks(err)
        _cnt(ctx, 'valgrind.processes')
        _cnt(ctx, 'valgrind.errors', len(blocks))
        ncase = 0
        for line in out.splitlines():
            if line.startswith('{"ev":"end"'):
                ncase += 1
            elif line.startswith('{"ev":"viol"'):
                try:
                    ev = json.loads(line)
                    _viol(ctx, ev['key'], '(under valgrind) ' + ev.get('detail', ''), replay=ev.get('replay'))
                except Exception:
                    pass
        _cnt(ctx, 'valgrind.cases', ncase)
        for case, kind, frame, blk in blocks:
            en = case[1] if case else '?'
            rp = None
            if case and case[0] < len(fl):
                try:
                    rp = dict(entry=en, file=os.path.basename(fl[case[0]][2]), input_b64=base64.b64encode(open(fl[case[0]][2], 'rb').read()[:8192]).decode())
                except OSError:
                    pass
            _viol(ctx, 'C13:valgrind:%s:%s' % (kind, frame), 'valgrind memcheck on the opt binary, entry point %s, input %s:\n%s' % (en, case[2] if case else '?', blk), replay=rp)
        if r.returncode not in (0, 9) or (r.returncode == 9 and not blocks):
            with ctx['lock']:
                ctx['agg']['harness_errors'].append('valgrind run over %s ended rc=%s without a parsed error: %s' % (os.path.basename(lp), r.returncode, err[-1500:]))
    with concurrent.futures.ThreadPoolExecutor(max_workers=max(1, ctx['opts']['jobs'])) as ex:
        list(ex.map(run, lists))


# ------------------------------------------------------------------------------------------------ strace EIO injection
def strace_faults(ctx):
    if not shutil.which('strace'):
        _inconclusive(ctx, 'strace not installed')
        return
    wd = ctx['workdir']
    inst = _instances(ctx)
    targets = []
    for name, en in (('afiro.lp', 0), ('galenet.mps', 2), ('afiro.mps', 3)):
        p = os.path.join(inst, name)
        if os.path.exists(p):
            targets.append((p, en))
    gzp = os.path.join(wd, 'afiro.mps.gz')
    try:
        with open(gzp, 'wb') as f, gzip.GzipFile(fileobj=f, mode='wb', mtime=0) as g:
            g.write(open(os.path.join(inst, 'afiro.mps'), 'rb').read())
        targets.append((gzp, 2))
    except OSError:
        pass
    targets = targets[:max(1, ctx['cases'])]
    fired_total = 0
    for ti, (path, en) in enumerate(targets):
        tmp = os.path.join(wd, 't%d' % ti)
        os.makedirs(tmp, exist_ok=True)
        base = [ctx['bin'], '--prop', 'C13', '--seed', '0', '--from', '0', '--to', '1', '--tier', ctx['tier'], '--tmpdir', tmp, '--sub', 'file', '--entry', str(en), '--variant', '1',
                '--file', path, '--faultkey', 'C13:fault:EIO:readFile']
        bl = os.path.join(tmp, 'baseline.strace')
        r = subprocess.run(['strace', '-f', '-e', 'trace=read,openat,close', '-o', bl] + base, stdout=subprocess.PIPE, stderr=subprocess.PIPE, timeout=300, cwd=tmp)
        if r.returncode != 0 or not os.path.exists(bl):
            _inconclusive(ctx, 'strace baseline failed for %s (rc=%s): %s' % (os.path.basename(path), r.returncode, r.stderr.decode(errors='replace')[-300:]))
            continue
        # index (1-based, over all read() calls of the run) of the reads issued on the reader's own file
        idx, fd, window = 0, None, []
        for line in open(bl, errors='replace'):
            m = re.match(r'\d+\s+openat\(.*?"([^"]*)".*\)\s*=\s*(\d+)', line)
            if m and re.search(r'c13_\d+_in\.(lp|mps|bas|set)$', m.group(1)) and 'O_RDONLY' in line:
                fd = m.group(2)
                continue
            m = re.match(r'\d+\s+close\((\d+)\)', line)
            if m and m.group(1) == fd:
                fd = None
                continue
            m = re.match(r'\d+\s+read\((\d+),', line)
            if m:
                idx += 1
                if fd is not None and m.group(1) == fd:
                    window.append(idx)
        _cnt(ctx, 'strace.baseline_reads', idx)
        if not window:
            _inconclusive(ctx, 'strace: no read() on the reader\'s file seen for %s' % os.path.basename(path))
            continue
        for K in window:
            of = os.path.join(tmp, 'inj%d.strace' % K)
            r = subprocess.run(['strace', '-f', '-e', 'trace=read', '-e', 'inject=read:error=EIO:when=%d' % K, '-o', of] + base, stdout=subprocess.PIPE, stderr=subprocess.PIPE,
                               timeout=300, cwd=tmp)
            _cnt(ctx, 'strace.injections')
            st = open(of, errors='replace').read() if os.path.exists(of) else ''
            if '(INJECTED)' not in st:
                _cnt(ctx, 'strace.not_fired')
                continue
            fired_total += 1
            _cnt(ctx, 'strace.fired')
            out = r.stdout.decode(errors='replace')
            err = r.stderr.decode(errors='replace')
            evs = []
            for line in out.splitlines():
                if line.startswith('{'):
                    try:
                        evs.append(json.loads(line))
                    except Exception:
                        pass
            summary = any(e_.get('ev') == 'summary' for e_ in evs) and any(e_.get('ev') == 'end' for e_ in evs)
            viols = [e_ for e_ in evs if e_.get('ev') == 'viol']
            rp = dict(entry=ENTRIES[en], file=os.path.basename(path), inject='read:error=EIO:when=%d' % K)
            if r.returncode != 0 or not summary:
                ck = ctx['crash_key'](err, r.returncode if r.returncode < 128 else -(r.returncode - 128))
                _viol(ctx, 'C13:fault:EIO:readFile:' + ck, 'process died (rc=%s) when read() #%d of %s failed with EIO' % (r.returncode, K, os.path.basename(path)), stderr=err, replay=rp)
                _cnt(ctx, 'strace.process_died')
            elif viols:
                for v in viols:
                    _viol(ctx, v['key'], 'read() #%d of %s failed with EIO (strace injection): %s' % (K, os.path.basename(path), v.get('detail', '')), replay=rp)
                _cnt(ctx, 'strace.violation')
            else:
                _cnt(ctx, 'strace.clean_outcome')
    if fired_total == 0:
        _inconclusive(ctx, 'strace EIO injection never fired')
