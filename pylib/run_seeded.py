#!/usr/bin/env python3
"""Runs the registered checks against the seeded changes kept under /verif/seeded/<id>/ (patch.diff + meta.json).

For each seeded change: apply the patch to /repo (git apply), run the quick check of the property it breaks (and optionally the
thorough one), record whether the check reported a violation (exit 1 with a VIOLATION line), and undo the patch
(git checkout -- .).  Results go to /verif/seeded/RESULTS.json and are summarised in DESIGN.md section 10.5.
Not part of any registered command.

usage: run_seeded.py [id ...] [--tier quick|thorough] [--seed N]
"""
import sys, os, json, subprocess, time, glob

V = os.path.dirname(os.path.dirname(os.path.abspath(__file__)))
REPO = '/repo'


def sh(cmd, **kw):
    return subprocess.run(cmd, shell=True, stdout=subprocess.PIPE, stderr=subprocess.STDOUT, text=True, **kw)


def main():
    args = sys.argv[1:]
    tier, seed, ids = 'quick', 0, []
    i = 0
    while i < len(args):
        if args[i] == '--tier':
            tier = args[i + 1]
            i += 2
        elif args[i] == '--seed':
            seed = int(args[i + 1])
            i += 2
        else:
            ids.append(args[i])
            i += 1
    dirs = sorted(glob.glob(os.path.join(V, 'seeded', '*', 'meta.json')))
    resp = os.path.join(V, 'seeded', 'RESULTS.json')
    try:
        results = json.load(open(resp))
    except Exception:
        results = {}
    if sh('git -C %s status --porcelain --untracked-files=no' % REPO).stdout.strip():
        print('refusing to run: /repo has uncommitted changes to tracked files')
        return 2
    for mp in dirs:
        d = os.path.dirname(mp)
        sid = os.path.basename(d)
        if ids and sid not in ids:
            continue
        meta = json.load(open(mp))
        props = meta['breaks'] if isinstance(meta['breaks'], list) else [meta['breaks']]
        patch = os.path.join(d, 'patch.diff')
        r = sh('git -C %s apply --check %s' % (REPO, patch))
        if r.returncode != 0:
            print(sid, 'PATCH DOES NOT APPLY', r.stdout[-300:])
            results[sid] = dict(error='patch does not apply')
            continue
        sh('git -C %s apply %s' % (REPO, patch))
        try:
            for prop in props:
                t0 = time.time()
                env = dict(os.environ, VERIF_SEED=str(seed))
                r = sh('%s %s --tier %s --seed %d' % (os.path.join(V, 'vcheck'), prop, tier, seed), cwd=V, env=env)
                viol = [l for l in r.stdout.splitlines() if l.startswith('VIOLATION')]
                keys = [l.strip()[5:] for l in r.stdout.splitlines() if l.strip().startswith('key: ')]
                res = dict(property=prop, tier=tier, seed=seed, exit=r.returncode, caught=(r.returncode == 1 and bool(viol)), keys=keys[:6],
                           wall_s=round(time.time() - t0))
                results.setdefault(sid, {})[prop + ':' + tier] = res
                print('%-28s %s %-8s exit=%d caught=%s %ds %s' % (sid, prop, tier, r.returncode, res['caught'], res['wall_s'], keys[:2]))
        finally:
            sh('git -C %s checkout -- .' % REPO)
        json.dump(results, open(resp, 'w'), indent=1)
    return 0


if __name__ == '__main__':
    sys.exit(main())
