#!/usr/bin/env python3
"""Runs the registered checks against the seeded changes kept under /verif/seeded/<id>/ (patch.diff + meta.json).

Two modes.  Default (the procedure of the brief): apply the patch to /repo (git apply), run the quick check of the property it
breaks, record whether the check reported a violation (exit 1 with a VIOLATION line), and undo the patch (git checkout -- .);
refuses to run when /repo has uncommitted changes.  With --scratch: copy /repo/src to a scratch directory outside /repo and
/verif, apply the patch there and run the check with VERIF_REPO pointing at the copy (several seeded changes can then be run
side by side and /repo stays untouched); the copy is removed afterwards.  Results go to /verif/seeded/RESULTS.json and are
summarised in DESIGN.md section 10.5.  Not part of any registered command.

usage: run_seeded.py [id ...] [--tier quick|thorough] [--seed N] [--scratch] [--flavours opt,asan] [--jobs N] [--also C06,...]
"""
import sys, os, json, subprocess, time, glob, shutil, concurrent.futures, threading

V = os.path.dirname(os.path.dirname(os.path.abspath(__file__)))
REPO = '/repo'
SCR = '/var/tmp/seedrun'
LOCK = threading.Lock()


def sh(cmd, **kw):
    return subprocess.run(cmd, shell=True, stdout=subprocess.PIPE, stderr=subprocess.STDOUT, text=True, **kw)


def parse(out, rc, prop, tier, seed, t0, mode, flavours):
    viol = [l for l in out.splitlines() if l.startswith('VIOLATION')]
    keys = [l.strip()[5:] for l in out.splitlines() if l.strip().startswith('key: ')]
    return dict(property=prop, tier=tier, seed=seed, exit=rc, caught=(rc == 1 and bool(viol)), new_violation_keys=len(viol), keys=keys[:6],
                wall_s=round(time.time() - t0), mode=mode, flavours=flavours or 'all')


def main():
    args = sys.argv[1:]
    tier, seed, ids, scratch, flavours, jobs, also = 'quick', 0, [], False, '', 1, []
    i = 0
    while i < len(args):
        a = args[i]
        if a == '--tier':
            tier = args[i + 1]; i += 2
        elif a == '--seed':
            seed = int(args[i + 1]); i += 2
        elif a == '--scratch':
            scratch = True; i += 1
        elif a == '--flavours':
            flavours = args[i + 1]; i += 2
        elif a == '--jobs':
            jobs = int(args[i + 1]); i += 2
        elif a == '--also':
            also = args[i + 1].split(','); i += 2
        else:
            ids.append(a); i += 1
    dirs = sorted(glob.glob(os.path.join(V, 'seeded', '*', 'meta.json')))
    resp = os.path.join(V, 'seeded', 'RESULTS.json')
    try:
        results = json.load(open(resp))
    except Exception:
        results = {}
    if not scratch and sh('git -C %s status --porcelain --untracked-files=no' % REPO).stdout.strip():
        print('refusing to run: /repo has uncommitted changes to tracked files')
        return 2
    head = sh('git -C %s rev-parse --short HEAD' % REPO).stdout.strip()

    def one(mp):
        d = os.path.dirname(mp)
        sid = os.path.basename(d)
        meta = json.load(open(mp))
        props = meta['breaks'] if isinstance(meta['breaks'], list) else [meta['breaks']]
        props = props + [p for p in meta.get('also_run', []) if p not in props] + [p for p in also if p not in props]
        patch = os.path.join(d, 'patch.diff')
        env = dict(os.environ, VERIF_SEED=str(seed))
        if flavours:
            env['VERIF_FLAVOURS'] = flavours
        if scratch:
            root = os.path.join(SCR, sid)
            shutil.rmtree(root, ignore_errors=True)
            os.makedirs(root)
            sh('cp -r %s/src %s/CMakeLists.txt %s/' % (REPO, REPO, root))
            r = sh('patch -p1 -s < %s' % patch, cwd=root)
            if r.returncode != 0:
                with LOCK:
                    results[sid] = dict(error='patch does not apply to %s: %s' % (head, r.stdout[-200:]))
                    print(sid, 'PATCH DOES NOT APPLY')
                shutil.rmtree(root, ignore_errors=True)
                return
            env['VERIF_REPO'] = root
        else:
            r = sh('git -C %s apply --check %s' % (REPO, patch))
            if r.returncode != 0:
                results[sid] = dict(error='patch does not apply')
                print(sid, 'PATCH DOES NOT APPLY', r.stdout[-300:])
                return
            sh('git -C %s apply %s' % (REPO, patch))
        try:
            for prop in props:
                t0 = time.time()
                r = sh('%s %s --tier %s --seed %d' % (os.path.join(V, 'vcheck'), prop, tier, seed), cwd=V, env=env)
                res = parse(r.stdout, r.returncode, prop, tier, seed, t0, 'scratch-copy' if scratch else 'applied-to-repo', flavours)
                res['repo_head'] = head
                with LOCK:
                    results.setdefault(sid, {})[prop + ':' + tier] = res
                    print('%-10s %s %-8s exit=%d caught=%s %ds %s' % (sid, prop, tier, r.returncode, res['caught'], res['wall_s'], res['keys'][:2]), flush=True)
                    json.dump(results, open(resp, 'w'), indent=1, sort_keys=True)
        finally:
            if scratch:
                shutil.rmtree(os.path.join(SCR, sid), ignore_errors=True)
            else:
                sh('git -C %s checkout -- .' % REPO)

    todo = [mp for mp in dirs if not ids or os.path.basename(os.path.dirname(mp)) in ids]
    if scratch and jobs > 1:
        with concurrent.futures.ThreadPoolExecutor(max_workers=jobs) as ex:
            list(ex.map(one, todo))
    else:
        for mp in todo:
            one(mp)
    json.dump(results, open(resp, 'w'), indent=1, sort_keys=True)
    return 0


if __name__ == '__main__':
    sys.exit(main())
