"""C13: file readers survive arbitrary input without memory errors and fail cleanly (harness/h_read.cpp, harness/fz_read.cpp)"""
import os, sys, hashlib
sys.path.insert(0, os.path.dirname(os.path.dirname(os.path.abspath(__file__))))
from props import COMMON_ASSUME  # noqa: E402

_H = os.path.join(os.path.dirname(os.path.dirname(os.path.dirname(os.path.abspath(__file__)))), 'harness')


def _sha(*names):
    h = hashlib.sha256()
    for n in names:
        try:
            h.update(open(os.path.join(_H, n), 'rb').read())
        except OSError:
            h.update(b'?')
    return h.hexdigest()[:12]


# the shared headers live next to the harness sources; their content hash is part of the build key through a -D
_DEF = ['-DC13_COMMON_SHA=' + _sha('c13_common.hpp', 'c13_seeds.hpp')]

HARNESSES = {
    'h_read': dict(src='h_read.cpp', insts=['inst_soplex'], defs=_DEF),
    'fz_read': dict(src='fz_read.cpp', insts=['inst_soplex'], defs=_DEF),
}

ENUM_CASES = 12000      # upper bound of the deterministic enumeration (cases beyond its end are no-ops; c13_stages checks completeness)


def _stages(tier):
    th = tier == 'thorough'
    hang = dict(hang_is_violation=True, idle_timeout=40)
    st = [
        dict(name='enum-asan', harness='h_read', flavour='asan', sub='enum', cases=ENUM_CASES, chunks_per_job=6, **hang),
        dict(name='mut-asan', harness='h_read', flavour='asan', sub='mut', cases=20000 if th else 4000, **hang),
        dict(name='enum-opt', harness='h_read', flavour='opt', sub='enum', cases=ENUM_CASES, chunks_per_job=6, **hang),
        dict(name='mut-opt', harness='h_read', flavour='opt', sub='mut', cases=100000 if th else 8000, **hang),
        dict(name='enum-complete', harness='h_read', flavour='asan', cases=1, custom='c13_stages:enum_complete'),
        dict(name='libfuzzer', harness='fz_read', flavour='fuzz', cases=60000 if th else 5000, custom='c13_stages:libfuzzer'),
    ]
    if th:
        st += [
            dict(name='valgrind', harness='h_read', flavour='opt', cases=120, custom='c13_stages:valgrind_subset'),
            dict(name='strace-eio', harness='h_read', flavour='opt', cases=4, custom='c13_stages:strace_faults'),
        ]
    return st


def _minima(tier):
    m = {'post.sequences_run': 5000, 'distinct:enum': 3000, 'leakcheck.runs': 3000, 'fuzz.execs.total': 21000}
    for e in ('lp-real', 'lp-rational', 'mps-real', 'mps-rational', 'basis', 'settings-file', 'settings-string'):
        m['entry.%s.inputs' % e] = 300
        m['entry.%s.success' % e] = 20
        m['entry.%s.failure' % e] = 20
        m['fuzz.execs.%s' % e] = 2000
    return m


PROPS = {
    'C13': dict(
        level='exploration',
        level_text='Seven reader entry points (LP/MPS x real/rational read mode, basis, settings file, settings string) are run on (i) complete '
                   'deterministic enumerations (every line-prefix and 512-byte-prefix truncation of the six smallest shipped instances and of '
                   'writer output, buffer-boundary line lengths, names of 1..300 characters, NUL bytes, 1..6-digit exponents, section and '
                   'duplicate-name permutations, gzip variants), (ii) seeded structure-aware mutations and (iii) coverage-guided libFuzzer runs, '
                   'under ASan+UBSan+LSan, each followed by the fixed post-read sequence (mirror check, sides, name sets, bounded optimize, '
                   'clear+reload+solve to a known optimum). Thorough adds valgrind memcheck (uninitialised memory) and strace EIO injection. '
                   'Sampling of an infinite input space: held on what was observed, not a proof.',
        level_note='trusts the sanitizers (red-zone tools miss intra-object overflows), a CPU-time budget >= 10x the slowest observed read as hang '
                   'criterion (retried once at 4x), LSan reachability for leaks; uninitialised reads are only looked for in the thorough tier',
        technique='runtime monitoring: sanitizer-instrumented readers under deterministic enumeration, structure-aware mutation and libFuzzer; '
                  'in-process monitors (mirror consistency, exception escape, per-case LSan attribution, CPU watchdog); valgrind; strace fault injection',
        stages=_stages,
        minima=_minima,
        eval_counter='cases', distinct_set='nontrivial',
        rule='case = (entry point, variant bits {name sets, sync mode, gz, preloaded object}, input bytes); enum: k-th item of a seed-independent '
             'enumeration; mut: pure function of (seed, k); distinct = hash(input bytes) x entry; non-trivial = the reader got past the first line '
             '(success, or the reported error line is >= 2; settings: the input has a "type:name = value" shape)',
        assumptions=COMMON_ASSUME + [
            'a non-existent / unreadable path is not a "byte sequence presented as a file" and is outside C13 (strict_fstream throws there)',
            'the readers do not promise lower<=upper for columns (files may state crossing bounds): observed and counted, not judged; lhs<=rhs is judged',
            'duplicate (row,column) coefficients accepted by the MPS reader are counted, not judged (mirror check compares multisets)',
        ],
    ),
}
