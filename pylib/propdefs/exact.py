"""C03 (exact solve), C07 (real/rational LP synchronisation) on harness/h_exact.cpp; also provides the exact-side stages
of C04 (forced basic solutions) and C11 (rational basis inverse through the solver API)."""
import os, sys
sys.path.insert(0, os.path.dirname(os.path.dirname(os.path.abspath(__file__))))
from props import two_flavour, memcheck_stage, COMMON_ASSUME  # noqa: E402

HARNESSES = {
    'h_exact': dict(src='h_exact.cpp', insts=['inst_soplex']),
}

PROPS = {
    'C03': dict(
        level='exploration',
        level_text='Exact solves (rational mode, zero tolerances) of seeded rational LPs (non-dyadic fractions, ratios up to 10^21, all '
                   'classes) under a 2-covering + random sample of the 14 exact-solver options x simplifier/scaler x the three sync modes are '
                   'judged with ZERO tolerance in exact arithmetic against the rational LP as entered: feasibility, dual signs, zero gap, '
                   'objValueRational == c.x+offset, exact Farkas proofs and rays, and the verdict against an independent exact simplex. '
                   '"Always decides" is checked as bounded progress whenever rational reconstruction or factorization is enabled.',
        level_note='option vectors with ratrec and ratfac both off run under a refinement limit and only their verdicts are checked; '
                   'reference truth = independent exact simplex with certificate re-check; LPs up to ~18x18',
        technique='runtime monitoring: zero-tolerance exact certificate oracle over executions of the exact solver under ASan+UBSan',
        stages=two_flavour('h_exact', 400, 1600, 2400, 9600, crash_markers=['lifting=1', 'iterative_refinement=0']),
        minima=lambda t: {'c03.optimal_checked': 200, 'c03.farkas_checked': 40, 'c03.ray_checked': 30, 'c03.verdict_checked': 300,
                          'c03.sync.auto': 100, 'c03.sync.manual': 100, 'c03.sync.onlyreal': 100},
        eval_counter='cases', distinct_set='nontrivial',
        rule='case k -> (rational LP from an integer family with exact rational row/column scaling and perturbation, exact option vector '
             '(2-covering for k%3!=2, random otherwise, defaults every 11th), sync mode (k/2)%3); distinct = hash(LP signature x options x sync mode)',
        assumptions=COMMON_ASSUME,
    ),
    'C07': dict(
        level='exploration',
        level_text='Seeded histories over 47 entry points (incl. clearLPReal/clearLPRational followed by a rebuild through mixed real/rational add calls) of the rational interface (incl. all GMP mpq_t overloads) and the real interface in '
                   'automatic sync mode, with excursions into manual mode (syncLPReal / syncLPRational) and floating-point solves in between: '
                   'after every call the rational LP must equal the exact mirror (rational arguments verbatim, doubles converted exactly), the '
                   'real LP must be its coefficient-wise adjacent-double image, dimensions/sense agree, and the private per-row/column '
                   'bound-type arrays must equal the classification of the rational bounds. Real-only mode: the exact solve must copy the '
                   'doubles exactly. Values include +-infinity, zero, denormal-scale, 1/3, 1e-1 and 30-digit numerators.',
        level_note='private arrays _rowTypes/_colTypes are read directly (harness opens private members); single-row/column removal is only '
                   'exercised on the last index because the renumbering of other removals is undocumented',
        technique='runtime monitoring: sequential exact mirror of both LPs checked after each API call of seeded histories, under ASan+UBSan',
        stages=lambda t: two_flavour('h_exact', 400, 1600, 6000, 20000)(t) + [memcheck_stage('h_exact', 48, 320)(t)],
        minima=lambda t: {'memcheck.cases_completed': 45, 'c07.exact_solves': 150, 'c07.sync_checks': 8000, 'c07.op.clearLPReal': 60, 'c07.op.clearLPRational': 60, 'c07.op.changeElementRational(mpq)': 20, 'c07.op.addRowRational(mpq)': 50,
                          'c07.manual_syncLPReal': 50, 'c07.manual_syncLPRational': 50, 'c07.onlyreal_copy_checked': 50},
        eval_counter='cases', distinct_set='nontrivial',
        rule='case k -> history seed; 50 (quick) / 80 (thorough) steps drawn from 45 operations; every 4th case adds a real-only exact solve; '
             'distinct = history seed',
        assumptions=COMMON_ASSUME,
    ),
}

# ---- the SoPlex-API half of C11 (getBasisInverseRowRational / ColRational / TimesVecRational on a solver object after exact solves):
# rides on the C03 case stream of h_exact; registered through the extension point of propdefs/lu.py (evaluated lazily)
import props as _p  # noqa: E402
_p.__dict__.setdefault('STAGE_EXTENSIONS', {}).setdefault('C11', []).append(
    lambda tier: [dict(name='api-asan', harness='h_exact', flavour='asan', cases=300 if tier == 'quick' else 1500, crash_markers=['lifting=1', 'iterative_refinement=0']),
                  dict(name='api-opt', harness='h_exact', flavour='opt', cases=1200 if tier == 'quick' else 6000, crash_markers=['lifting=1', 'iterative_refinement=0'])])
_p.__dict__.setdefault('MINIMA_EXTENSIONS', {}).setdefault('C11', []).append(
    lambda tier: {'c11.api.bases_checked': 100, 'c11.api.rows_cols_checked': 200, 'c11.api.solves_checked': 100})
