"""C19 (containers and sparse vectors behave as their abstract data types) on harness/h_cont.cpp + harness/cont_*.cpp.

The harness includes the container headers of /repo/src/soplex directly (no soplex.h, no inst_soplex): only the ten small
support objects are linked.  ENABLE_CONSISTENCY_CHECKS is switched on inside the harness TUs through the include-order
work-around (vlib/cont_common.hpp); nameset.cpp / idxset.cpp / didxset.cpp come from the shared support objects without the
macro, their three isConsistent() bodies are mirrored in harness/cont_misc.cpp.
"""
import os, sys
sys.path.insert(0, os.path.dirname(os.path.dirname(os.path.abspath(__file__))))
from props import COMMON_ASSUME  # noqa: E402

HARNESSES = {
    'h_cont': dict(src='h_cont.cpp', insts=[],
                   extra_src=['harness/cont_sets.cpp', 'harness/cont_misc.cpp', 'harness/cont_arr.cpp', 'harness/cont_vec.cpp']),
}

NU = 20          # units of the harness (see unitTable() in h_cont.cpp)
UNITS = ['DataSet', 'ClassSet', 'SVSet.double', 'SVSet.Rational', 'LPRowSet.double', 'LPColSet.double', 'LPRowSet.Rational',
         'LPColSet.Rational', 'IdxSet', 'DIdxSet', 'NameSet', 'DataHashTable', 'DataArray', 'Array', 'ClassArray', 'IdList', 'IsList',
         'Sorter', 'Vec.double', 'Vec.Rational']


def _stage(name, flavour, exlen, ec, random_per_unit, rlo, rhi):
    """ec exhaustive chunk cases per unit (spread with a period over the case range) + random_per_unit long random sequences"""
    blocks = ec + random_per_unit
    period = max(1, blocks // ec)
    return dict(name=name, harness='h_cont', flavour=flavour, cases=NU * blocks, chunks_per_job=4,
                args=dict(exlen=exlen, ec=ec, period=period, rlo=rlo, rhi=rhi))


def _stages(tier):
    if tier == 'thorough':
        return [_stage('asan', 'asan', 5, 96, 1000, 300, 2000),
                _stage('opt', 'opt', 5, 96, 12000, 300, 2000)]
    return [_stage('asan', 'asan', 4, 32, 120, 150, 1200),
            _stage('opt', 'opt', 5, 64, 600, 200, 2000)]


def _minima(tier):
    th = tier == 'thorough'
    m = {'cases.exhaustive': NU * ((96 + 96) if th else (32 + 64)),
         'cases.random': NU * ((1000 + 12000) if th else (120 + 600)),
         'seqs.exhaustive': 25000000 if th else 3000000,
         'ops.random.total': 100000000 if th else 5000000,
         'distinct:nontrivial': 100000 if th else 10000}
    for u in UNITS:
        m['seqs.' + u] = 100000 if th else 10000       # sequences (exhaustive + random) per unit; Sorter: see below
        m['checks.' + u] = 5000000 if th else 300000
    m['seqs.Sorter'] = 10000 if th else 1000           # 6-letter alphabet: 6^5 / 6^6 sequences
    # operations that force reallocation / packing under live keys must have been executed
    for c in ['ops.DataSet.reMax(grow)', 'ops.ClassSet.reMax(grow)', 'ops.SVSet.double.memPack', 'ops.SVSet.double.memRemax(grow)',
              'ops.SVSet.Rational.memPack', 'ops.SVSet.double.reMax(grow)', 'ops.LPRowSet.double.memPack', 'ops.LPColSet.double.memPack',
              'ops.NameSet.memPack', 'ops.NameSet.memRemax(fit)', 'ops.NameSet.reMax(grow)', 'ops.DataHashTable.reMax(grow)',
              'ops.DIdxSet.setMax', 'ops.DataSet.remove(perm)', 'ops.SVSet.double.remove(perm)', 'ops.NameSet.remove(name)',
              'ops.Vec.double.SSVector.setup', 'ops.Vec.Rational.SVector.sort', 'ops.Sorter.SPxQuicksort', 'ops.IdList.move(delta)']:
        m[c] = 2000 if th else 200
    return m


PROPS = {
    'C19': dict(
        level='exploration',
        level_text='Model-based testing of the elementary containers and vector classes: every public operation is executed with valid '
                   'arguments on the real class and on a reference model (std::map / std::vector / std::list / exact rational dense '
                   'vectors) and the full observable state is compared after every operation.  All operation sequences up to a fixed '
                   'length over a small alphabet are enumerated (bounded-exhaustive), long random sequences force reallocation and '
                   'packing under live keys.  Histories are an infinite space: held-on-what-was-observed, not a proof.',
        level_note='trusts the std:: containers and GMP as reference; double-precision vector operations are judged exactly on dyadic '
                   'operands (plus a rounding-bound check on generic doubles); argument patterns that are known to corrupt memory on the '
                   'pinned tree are decided by non-crashing probes and then skipped in process (counted as skipped.*)',
        technique='runtime monitoring: model-based oracle (reference ADTs) after every operation + the project\'s own isConsistent() '
                  'under ENABLE_CONSISTENCY_CHECKS + white-box arena/containment monitors, under ASan+UBSan and -O2; '
                  'bounded-exhaustive + random operation sequences',
        stages=_stages,
        minima=_minima,
        eval_counter='cases', distinct_set='nontrivial',
        rule='case k -> unit k mod 20 (DataSet, ClassSet, SVSet<double|Rational>, LPRowSet/LPColSet<double|Rational>, IdxSet, DIdxSet, '
             'NameSet, DataHashTable, DataArray, Array, ClassArray, IdList, IsList, sorter/stablesum, vectors<double|Rational>); '
             'block k div 20 selects either chunk c of the exhaustive enumeration of all operation sequences of length L over the '
             'unit\'s alphabet (every EC-th sequence) or one random sequence of 150..2000 operations; distinct = hash of the '
             'operation sequence; non-trivial = at least one operation was executed and compared',
        assumptions=COMMON_ASSUME + [
            'operations are only called with arguments that are valid per the class documentation (asserts are compiled out)',
            'ENABLE_CONSISTENCY_CHECKS is live in the harness TUs except IsList::isConsistent (does not compile) and the three '
            'non-template bodies in nameset.cpp/idxset.cpp/didxset.cpp (mirrored in the harness); SVSetBase::isConsistent() as a whole '
            'is not used because it rejects sets holding an empty vector (false alarm of the self-check), its components are',
        ],
    ),
}
