"""C18: distinct solver objects used concurrently from different threads -- harness/h_mt.cpp (ThreadSanitizer + digests)"""
import os, sys
sys.path.insert(0, os.path.dirname(os.path.dirname(os.path.abspath(__file__))))
from props import COMMON_ASSUME  # noqa: E402

HARNESSES = {
    'h_mt': dict(src='h_mt.cpp', insts=['inst_soplex']),
}


def _stages(tier):
    # A case runs up to 32 threads, so the stages are a few single-process shards (distinct case ranges through --base) instead of
    # 16 workers x 32 threads: at most 5 processes run side by side, each mostly in its single-threaded run-alone phase.
    # Measured (16 shared cores): tsan 15 cases x 2 reps = 80 s; opt 100 cases x 8 reps = 140 s.
    if tier == 'thorough':
        tsan = [dict(name='tsan-%d' % i, harness='h_mt', flavour='tsan', cases=220, single_process=True, idle_timeout=200,
                     args={'base': 1000 * i, 'reps': 4}) for i in range(4)]
        opt = [dict(name='opt-%d' % i, harness='h_mt', flavour='opt', cases=800, single_process=True, idle_timeout=1500,
                    args={'base': 100000 + 10000 * i, 'reps': 12}) for i in range(2)]
        return tsan + opt
    tsan = [dict(name='tsan-%d' % i, harness='h_mt', flavour='tsan', cases=20, single_process=True, idle_timeout=200,
                 args={'base': 1000 * i, 'reps': 3}) for i in range(3)]
    opt = [dict(name='opt-%d' % i, harness='h_mt', flavour='opt', cases=60, single_process=True, idle_timeout=1500,
                args={'base': 100000 + 10000 * i, 'reps': 8}) for i in range(2)]
    return tsan + opt


def _minima(tier):
    # about one fifth of what a quick run observes on this machine (thorough: x8); a run that interleaved less is inconclusive
    f = 8 if tier == 'thorough' else 1
    m = {
        'cases': 150,
        'distinct:interleaving': 600,
        'runs.concurrent': 800,
        'digest.compared': 8000,
        'digest.steps_compared': 200000,
        # observed concurrency: calls of different threads that overlapped in time, per pair of entry-point kinds
        'overlap.readFile||readFile': 20000,
        'overlap.readLP||readLP': 4000,
        'overlap.readMPS||readMPS': 20000,
        'overlap.optimize||optimize': 3000,
        'overlap.exact||exact': 400,
        'overlap.exact||exactb': 1000,
        'overlap.exactb||exactb': 500,
        'overlap.ctor||ctor': 6000,
        'overlap.ctor||dtor': 8000,
        'overlap.dtor||dtor': 5000,
        'overlap.ctor||exactb': 4000,
        'overlap.dtor||exactb': 4000,
        'overlap.ctor||readLP': 10000,
        'overlap.copy||copy': 150,
        'overlap.copy||optimize': 1500,
        'overlap.load||load': 150,
        'overlap.modify||modify': 80,
        'overlap.setParam||setParam': 4000,
        'overlap.writeFile||writeFile': 4000,
        'overlap.query||query': 1500,
        'overlap.queryRat||queryRat': 500,
        'overlap.settingsio||settingsio': 1000,
        'overlap.basisio||basisio': 600,
        # script step kinds executed (and compared) in concurrent runs
        'step.ctor': 2000, 'step.setParam': 6000, 'step.load.real': 2000, 'step.load.rational': 2500,
        'step.readFile.lp': 6000, 'step.readFile.mps': 4000, 'step.readBasisFile': 2000, 'step.modify.real': 4000,
        'step.modify.rational': 4000, 'step.optimize.real': 10000, 'step.optimize.exact': 2000, 'step.optimize.exact.boosted': 2000,
        'step.query.real': 2000, 'step.writeFile.lp': 8000, 'step.writeFile.mps': 2000, 'step.writeBasisFile': 4000, 'step.copy': 4000,
        'step.assign': 2000, 'step.settingsio': 2000,
        'exact.solves_with_precision_boost': 300,
    }
    m = {k: v * f for k, v in m.items()}
    m.update({'build.tsan': 1, 'build.plain': 1, 'threads.T2': 10, 'threads.T4': 10, 'threads.T8': 10, 'threads.T16': 10, 'threads.T32': 10})
    return m


PROPS = {
    'C18': dict(
        level='exploration',
        level_text='Seeded script sets (each thread: create / fill by API and by readFile / modify / float and exact solves with and without '
                   'precision boosting / query / write / copy / destroy on its own objects) run with 2..32 threads under ThreadSanitizer and, '
                   'in an optimised build, with many repetitions under scheduling jitter; every concurrent per-thread result digest is compared '
                   'with the digest of the same script run alone. Observed interleavings are sampled, not enumerated: held-on-what-was-observed.',
        level_note='trusts ThreadSanitizer happens-before detection on instrumented code (libgmp/libmpfr/libstdc++/libc are uninstrumented: their '
                   'internals are invisible to it); concurrency actually observed is measured (overlap.* counters) and is a mandatory minimum',
        technique='runtime monitoring: ThreadSanitizer over whole-API multi-threaded workloads + sequential-vs-concurrent result digests + measured call overlap',
        stages=_stages,
        minima=_minima,
        eval_counter='cases', distinct_set='nontrivial',
        rule='case k -> (kind: general, or MPS-input every 5th; T in {2,4,8,16,32}; T scripts of 4 shuffled segments drawn from (seed,k); R repetitions '
             'with jitter mode / phase barriers / start offsets drawn from (seed,k,rep)); distinct = hash(T, script ids = LP signatures x configurations); '
             'every case is non-trivial (every script solves); evaluations = cases, each comprising T sequential + R*T concurrent script executions',
        assumptions=COMMON_ASSUME + [
            'Forest-Tomlin update only and no least-squares scaler in the scripts (known crashes of C10/C09 would kill the sequential baseline)',
            'copies are made of floating-point-mode objects only (exact-mode copies: known C17 defect)',
            'a digest difference counts only if the script is reproducible when run alone twice (otherwise it is recorded as sequential nondeterminism)',
            'MPS-format input and basis-file input run only in the mps script-set kind, inside a forked child process',
        ],
    ),
}
