"""C18: distinct solver objects used concurrently from different threads -- harness/h_mt.cpp (ThreadSanitizer + digests)"""
import os, sys
sys.path.insert(0, os.path.dirname(os.path.dirname(os.path.abspath(__file__))))
from props import COMMON_ASSUME  # noqa: E402

HARNESSES = {
    'h_mt': dict(src='h_mt.cpp', insts=['inst_soplex']),
}


def _stages(tier):
    # A case runs up to 32 threads, so the stages are a few single-process shards (distinct case ranges through --base) instead of
    # 16 workers x 32 threads: at most 5 processes run side by side, each mostly in its single-threaded run-alone phase.
    # Measured (16 shared cores): tsan 15 cases x 2 reps = 80 s; opt 100 cases x 8 reps = 140 s.
    if tier == 'thorough':
        tsan = [dict(name='tsan-%d' % i, harness='h_mt', flavour='tsan', cases=220, single_process=True, idle_timeout=900,
                     args={'base': 1000 * i, 'reps': 4}) for i in range(4)]
        opt = [dict(name='opt-%d' % i, harness='h_mt', flavour='opt', cases=1000, single_process=True, idle_timeout=900,
                    args={'base': 100000 + 10000 * i, 'reps': 12}) for i in range(2)]
        return tsan + opt
    tsan = [dict(name='tsan-%d' % i, harness='h_mt', flavour='tsan', cases=20, single_process=True, idle_timeout=900,
                 args={'base': 1000 * i, 'reps': 3}) for i in range(3)]
    opt = [dict(name='opt-%d' % i, harness='h_mt', flavour='opt', cases=60, single_process=True, idle_timeout=900,
                args={'base': 100000 + 10000 * i, 'reps': 8}) for i in range(2)]
    return tsan + opt


def _minima(tier):
    f = 4 if tier == 'thorough' else 1
    return {
        'cases': 100 * f,
        'distinct:interleaving': 300 * f,
        'runs.concurrent': 500 * f,
        'digest.compared': 5000 * f,
        'build.tsan': 1,
        # observed concurrency (calls of different threads that overlapped in time, per pair of entry-point kinds)
        'overlap.readFile||readFile': 200 * f,
        'overlap.readLP||readLP': 100 * f,
        'overlap.readMPS||readMPS': 50 * f,
        'overlap.optimize||optimize': 1000 * f,
        'overlap.exact||exact': 100 * f,
        'overlap.exact||exactb': 100 * f,
        'overlap.exactb||exactb': 100 * f,
        'overlap.ctor||ctor': 500 * f,
        'overlap.ctor||dtor': 200 * f,
        'overlap.dtor||dtor': 100 * f,
        'overlap.copy||copy': 30 * f,
        'overlap.load||load': 50 * f,
        'overlap.modify||modify': 50 * f,
        'overlap.setParam||setParam': 100 * f,
        'overlap.writeFile||writeFile': 100 * f,
        'overlap.query||query': 1000 * f,
        'overlap.queryRat||queryRat': 100 * f,
        # script step kinds executed concurrently
        'step.ctor': 1000 * f, 'step.setParam': 1000 * f, 'step.load.real': 1000 * f, 'step.load.rational': 500 * f,
        'step.readFile.lp': 1000 * f, 'step.readFile.mps': 500 * f, 'step.modify.real': 1000 * f, 'step.modify.rational': 1000 * f,
        'step.optimize.real': 3000 * f, 'step.optimize.exact': 1000 * f, 'step.optimize.exact.boosted': 1000 * f,
        'step.writeFile.lp': 1000 * f, 'step.writeFile.mps': 500 * f, 'step.copy': 500 * f, 'step.assign': 500 * f,
        'step.settingsio': 500 * f, 'step.readBasisFile': 200 * f,
        'exact.solves_with_precision_boost': 20 * f,
        'threads.T2': 5, 'threads.T4': 5, 'threads.T8': 5, 'threads.T16': 5, 'threads.T32': 5,
    }


PROPS = {
    'C18': dict(
        level='exploration',
        level_text='Seeded script sets (each thread: create / fill by API and by readFile / modify / float and exact solves with and without '
                   'precision boosting / query / write / copy / destroy on its own objects) run with 2..32 threads under ThreadSanitizer and, '
                   'in an optimised build, with many repetitions under scheduling jitter; every concurrent per-thread result digest is compared '
                   'with the digest of the same script run alone. Observed interleavings are sampled, not enumerated: held-on-what-was-observed.',
        level_note='trusts ThreadSanitizer happens-before detection on instrumented code (libgmp/libmpfr/libstdc++/libc are uninstrumented: their '
                   'internals are invisible to it); concurrency actually observed is measured (overlap.* counters) and is a mandatory minimum',
        technique='runtime monitoring: ThreadSanitizer over whole-API multi-threaded workloads + sequential-vs-concurrent result digests + measured call overlap',
        stages=_stages,
        minima=_minima,
        eval_counter='cases', distinct_set='nontrivial',
        rule='case k -> (kind: general, or MPS-input every 5th; T in {2,4,8,16,32}; T scripts of 4 shuffled segments drawn from (seed,k); R repetitions '
             'with jitter mode / phase barriers / start offsets drawn from (seed,k,rep)); distinct = hash(T, script ids = LP signatures x configurations); '
             'every case is non-trivial (every script solves); evaluations = cases, each comprising T sequential + R*T concurrent script executions',
        assumptions=COMMON_ASSUME + [
            'Forest-Tomlin update only and no least-squares scaler in the scripts (known crashes of C10/C09 would kill the sequential baseline)',
            'copies are made of floating-point-mode objects only (exact-mode copies: known C17 defect)',
            'a digest difference counts only if the script is reproducible when run alone twice (otherwise it is recorded as sequential nondeterminism)',
            'MPS-format input and basis-file input run only in the mps script-set kind, inside a forked child process',
        ],
    ),
}
