"""C12: LP/MPS round trip, numeric literals, dual writer -- harness/h_io12.cpp (helpers in vlib/io_c12.hpp)"""
import os, sys
sys.path.insert(0, os.path.dirname(os.path.dirname(os.path.abspath(__file__))))
from props import COMMON_ASSUME  # noqa: E402

HARNESSES = {
    'h_io12': dict(src='h_io12.cpp', insts=['inst_soplex']),
}

LIT_MAXLEN = 7      # exhaustive enumeration bound of the literal grammar (both tiers)
LIT_BLOCK = 250     # literals per case of the `lit` sub-workload


def count_literals(L):
    """size of the grammar  sign? digits? (. digits)? ([eE] sign? digits)? | sign? digits/digits  over digits {0,1,5,9},
    length <= L, at least one mantissa digit (same closed form as vl::countLiterals; the harness checks its enumeration against it)"""
    tot = 0
    for s in (0, 1):
        sm = 2 if s else 1
        for a in range(0, L + 1):
            for b in range(0, L + 1):
                if a == 0 and b == 0:
                    continue
                base = s + a + (b + 1 if b else 0)
                if base > L:
                    continue
                m = sm * 4 ** a * 4 ** b
                tot += m
                for es in (0, 1):
                    e = 1
                    while base + 1 + es + e <= L:
                        tot += m * 2 * (2 if es else 1) * 4 ** e
                        e += 1
        for a in range(1, L + 1):
            b = 1
            while s + a + 1 + b <= L:
                tot += sm * 4 ** a * 4 ** b
                b += 1
    return tot


NLIT = count_literals(LIT_MAXLEN)                 # 249880 for L = 7
NBLOCKS = (NLIT + LIT_BLOCK - 1) // LIT_BLOCK
# literals that denote a number (x/0 with an all-zero denominator is counted as skipped); lower bound used for the minima
NLIT_ZERO_DEN_MAX = NLIT // 20


def _nflv():
    only = os.environ.get('VERIF_FLAVOURS')
    return len([f for f in only.split(',') if f in ('asan', 'opt')]) if only else 2


def _stages(tier):
    th = tier == 'thorough'
    lit_args = lambda fs: dict(maxlen=LIT_MAXLEN, block=LIT_BLOCK, fsample=fs)   # noqa: E731
    st = []
    for flv, rt, dual, fs, lr in (('asan', 20000 if th else 2000, 8000 if th else 800, 2 if th else 12, 2000 if th else 150),
                                  ('opt', 300000 if th else 25000, 150000 if th else 10000, 1 if th else 3, 20000 if th else 1500)):
        st.append(dict(name='rt-' + flv, harness='h_io12', flavour=flv, cases=rt, sub='rt'))
        st.append(dict(name='dual-' + flv, harness='h_io12', flavour=flv, cases=dual, sub='dual'))
        st.append(dict(name='lit-' + flv, harness='h_io12', flavour=flv, cases=NBLOCKS, sub='lit', args=lit_args(fs)))
        st.append(dict(name='litrand-' + flv, harness='h_io12', flavour=flv, cases=lr, sub='litrand'))
    return st


def _minima(tier):
    nf = _nflv()
    th = tier == 'thorough'
    mn = {
        # exhaustive part: every string of the grammar must have been enumerated in every flavour that ran
        'lit.enumerated': NLIT * nf,
        'lit.ratFromString.checked': (NLIT - NLIT_ZERO_DEN_MAX) * nf,
        'lit.lp-rational.checked': (100000 if th else 8000) * nf,
        'lit.mps-rational.checked': (100000 if th else 8000) * nf,
        'lit.lp-real.checked': (80000 if th else 6000) * nf,
        'lit.mps-real.checked': (80000 if th else 6000) * nf,
        'litrand.ratFromString.checked': (20000 if th else 1000) * nf,
        'rt.optimum_checked': (30000 if th else 1500) * nf,
        'norm.ranged_rows_split': (10000 if th else 500) * nf,
        'norm.dropped_columns': (6000 if th else 300) * nf,
        'norm.mps_max_negated': (6000 if th else 300) * nf,
        'norm.free_rows_written': (6000 if th else 300) * nf,
        'rt.scaled.isScaled_true': (6000 if th else 300) * nf,
        'rt.with_intvars': (6000 if th else 300) * nf,
        'dual.optimum_checked': (2000 if th else 100) * nf,
        'distinct:routecell': 48,
    }
    for fmt in ('lp', 'mps'):
        for api in ('real', 'rational'):
            for nm in ('usernames', 'defaultnames'):
                for w in ('wzo0', 'wzo1'):
                    mn['rt.cell.%s.%s.%s.%s' % (fmt, api, nm, w)] = (1500 if th else 80) * nf
    return mn


PROPS = {
    'C12': dict(
        level='exploration',
        level_text='Seeded LPs (all row/bound types, free and empty rows, droppable columns, integer markers, zero objective, non-dyadic '
                   'rationals / 17-digit doubles) are written by writeFile / writeFileRational in LP and MPS format and read back by a fresh '
                   'SoPlex object; the result is compared with the model after only the documented normalisations, structurally and by the '
                   'independently certified optimum. The dual writer is checked on LPs with a certified finite optimum. Sampling of an '
                   'infinite input space: held-on-what-was-observed. One sub-space is covered EXHAUSTIVELY in every run: all %d strings of '
                   'length <= %d of the literal grammar over {+,-,0,1,5,9,.,e,E,/} through soplex::ratFromString (and all of them, thorough '
                   'tier, or a 1-in-3 (opt) / 1-in-12 (asan) hash sample plus every literal of length <= 4, quick tier, through LP and MPS files in '
                   'rational and real read mode; literals with an exponent > 308, which kill the rational readers of the pinned tree with SIGFPE '
                   'and need a forked child each, are thinned by a further factor 6 in the sampled quick-tier file routes).' % (NLIT, LIT_MAXLEN),
        level_note='trusts GMP arithmetic, a 40-line independent literal parser (cross-checked against glibc strtod in real mode), the exact '
                   'reference simplex (certificates re-checked), and name-based matching of rows/columns; real MPS files are compared to '
                   '2e-15 absolute + 1e-14 relative (the writer prints %.15f; a ranged row is the sum of two such numbers), everything else exactly; the objective offset is a solver '
                   'parameter that neither writer stores, it is excluded from the comparison',
        technique='runtime monitoring: exact structural + certified-optimum oracle over write/read executions under ASan+UBSan; exhaustive '
                  'grammar enumeration for numeric literals with fork isolation of inputs that raise SIGFPE inside GMP',
        stages=_stages,
        minima=_minima,
        eval_counter='cases', distinct_set='nontrivial',
        rule='sub rt: case k -> LP family k mod 10 + injected structures; per case 5 routes = {real, rational} x {lp, mps} + one '
             'persistent-scaled real route, each with random names/writeZeroObjective/integer markers; sub dual: case k -> planted-opt / '
             'degenerate LP, lp or mps; sub lit (EXHAUSTIVE sub-space): case k -> literals [250k, 250k+250) of the enumeration sorted by '
             '(length, text); sub litrand: 25 random long literals. cases = sum over sub-workloads; distinct = hash(LP signature x route) '
             'resp. hash(literal)',
        assumptions=COMMON_ASSUME + [
            'file names are unique per process and case under --tmpdir; user names are <= 8 characters, no blanks, legal in both formats',
            'literals x/0 denote no number and are skipped (counted); p/q literals are only defined for the rational readers',
        ],
    ),
}
