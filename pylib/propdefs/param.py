"""C15: parameters -- what is set is what is used; invalid values rejected atomically (harness/h_param.cpp)"""
import os, sys
sys.path.insert(0, os.path.dirname(os.path.dirname(os.path.abspath(__file__))))
from props import two_flavour, COMMON_ASSUME  # noqa: E402

HARNESSES = {
    'h_param': dict(src='h_param.cpp', insts=['inst_soplex']),
}

# cases 0..245 of every stage are the complete enumeration (3 front ends x (26 bool + 28 int + 27 real + random seed)); both stages of both
# tiers contain it, so the enumeration minima are tier independent (two flavours => twice the per-stage numbers)
_ENUM_CASES = 3 * (26 + 28 + 27 + 1)


def _stages(tier):
    # asan: only operations with non-finite reals and the known setSettings crash pattern are probed in a forked child (a fork of an ASan
    # process costs ~4 ms); any other crash goes through the driver's crash isolation.  opt: every operation is probed.
    a, o = (40000, 200000) if tier == 'thorough' else (2400, 8000)
    return [dict(name='asan', harness='h_param', flavour='asan', cases=a, args={'probe': 'risky'}),
            dict(name='opt', harness='h_param', flavour='opt', cases=o, args={'probe': 'all'})]


def _minima(tier):
    q = tier == 'quick'
    def n(quick):                                     # thorough = 23 x the quick budget; minima at 15 x the quick minima
        return quick if q else 15 * quick
    return {
        'cases': 9000 if q else 200000,
        'enum.cases': 2 * _ENUM_CASES,                 # complete enumeration in the asan and in the opt stage
        'distinct:cells': 1800,                        # distinct (operation, parameter, value class) cells; complete enumeration gives 1875
        'oracle.evaluations': n(300000),
        'ops.setBoolParam': n(20000),
        'ops.setIntParam': n(30000),
        'ops.setRealParam': n(30000),
        'ops.setRandomSeed': n(10000),
        'ops.parseSettingsString': n(40000),
        'ops.loadSettingsFile': n(30000),
        'ops.saveSettingsFile': n(25000),
        'reload.checked': n(25000),
        'ops.resetSettings': n(15000),
        'ops.setSettings': n(20000),
        'ops.loadLP': n(5000),
        'oracle.rational_lp_checked': n(5000),
        'probe.forks': n(150000),
        'behaviour.iterlimit_checked': n(60),
        'behaviour.objsense_checked': n(300),
        'behaviour.verbosity_checked': n(300),
        'behaviour.tolerance_checked': n(150),
        'behaviour.offset_checked': n(150),
        # every value class of every parameter type was exercised through the typed setter (spot check of the pc.* table)
        'pc.feastol.nan': 6, 'pc.feastol.below-min': 6, 'pc.feastol.above-max': 6, 'pc.feastol.+inf': 6, 'pc.feastol.-inf': 6,
        'pc.obj_offset.nan': 6, 'pc.infty.nan': 6, 'pc.simplifier.2': 6, 'pc.objsense.non-enum': 6, 'pc.verbosity.above-max': 6,
        'pc.verbosity.below-min': 6, 'pc.iterlimit.int-min': 6, 'pc.scaler.int-max': 6, 'pc.random_seed.max': 6,
        'pc.simplifier_enable_dualfix.false': 6, 'pc.simplifier_modifyrowfac.valid': 6,
    }


PROPS = {
    'C15': dict(
        level='exploration',
        level_text='An independent model (parameter -> value map initialised from the published name/range/default tables, plus the build facts '
                   '"no PaPILO" and a hard-coded table of well-known documented defaults) predicts the return value and the complete parameter '
                   'state of every set / parse / load / save / reset / copy-settings operation. parameter x value class (valid, both range ends, '
                   'end+-1, nextafter beyond the ends, +-inf, NaN, subnormal, -0, INT_MIN/INT_MAX, non-enumerated, unsupported in this build, '
                   'unchanged) x front end (typed setter, parseSettingsString in 8 layouts and all bool spellings, loadSettingsFile) is '
                   'ENUMERATED completely in every run (cases 0..245 of each stage); the space of operation histories (40 operations each, with and '
                   'without an LP, with a second object / earlier snapshot as copy source) is sampled: held on what was observed, not a proof.',
        level_note='trusts: the published tables as documentation of names/ranges/defaults (a mutated table is only caught for the ~60 hard-coded '
                   'entries); fork() probes to attribute crashes; private members read through sxinc.hpp for derived state. Printed precision of '
                   'reals is taken as the documented 8 decimals of SPxOut::setScientific. loadSettingsFile is documented (by its code) to skip bad '
                   'lines with a message and to fail only for unreadable files / overlong lines; seeds above UINT_MAX are converted with a warning.',
        technique='runtime monitoring: model-based oracle after EVERY operation over all 26+28+27 getters, randomSeed(), derived state (pricer / '
                  'ratio tester / scaler / starter / simplifier objects and names, tolerances(), spxout verbosity, rational tolerance/infinity '
                  'mirrors, LU and solver switches), the stored real LP and (in auto sync mode) the rational LP; every operation is first run '
                  'in a forked probe so that SIGFPE/SIGSEGV become keyed violations; C++ exceptions are caught and keyed; saved files are read '
                  'by an independent reader and re-loaded into a fresh object; behavioural probes (iteration limit, objective sense vs certified '
                  'optimum, verbosity 0 prints nothing, tolerances(), objective offset); ASan+UBSan flavour plus -O2 volume flavour',
        stages=_stages,
        minima=_minima,
        eval_counter='cases', distinct_set='nontrivial',
        rule='case k < 246 -> complete enumeration: front end (k mod 3) x parameter (k div 3) x every value class, each class from several valid '
             'base values (rejected classes first, so atomicity is judged against every base); case k >= 246 -> by (k-246) mod 8: seeded history of '
             '40 random operations (6/8), history dominated by save/reload/reset/setSettings (1/8), behavioural probe (1/8). parameter x boundary '
             'values are ENUMERATED completely, histories are sampled. distinct = hash of the sequence of (operation, parameter, value class); '
             'non-trivial = at least one operation was executed and judged by the full oracle',
        assumptions=COMMON_ASSUME + [
            'valid arguments only: Settings objects handed to setSettings come from settings() of a live object; parameter ids are in range',
            'documented build facts: SOPLEX_WITH_PAPILO undefined => simplifier=2, changing simplifier_enable_* and simplifier_modifyrowfac '
            'are rejected with a message; Boost/GMP/MPFR present => readmode/solvemode rational and precision_boosting accepted',
            'documented side effects are not violations: syncmode creates/destroys/synchronises the rational LP, objsense flips the stored sense '
            '(objReal(j) unchanged), obj_offset changes the stored offset, feastol/opttol/epsilon_*/fp*tol also set tolerances()',
        ],
    ),
}
