"""C10 (floating-point LU factorisation, solves and updates) and the stand-alone half of C11 (rational LU) on harness/h_lu.cpp.

Extension point for the SoPlex-API half of C11 (getBasisInverse*Rational on a solver object, cache invalidation), which lives in
another harness: any other fragment may append callables to

    props.STAGE_EXTENSIONS['C11']     tier -> list of stage dicts        (run in addition to the stages below)
    props.MINIMA_EXTENSIONS['C11']    tier -> dict of additional mandatory minima

e.g.   import props as _p
       _p.__dict__.setdefault('STAGE_EXTENSIONS', {}).setdefault('C11', []).append(
           lambda tier: [dict(name='api-asan', harness='h_exact', flavour='asan', cases=150 if tier == 'quick' else 5000, sub='api')])
Both are evaluated lazily (when the check runs), so the load order of the fragments does not matter.
"""
import os, sys
sys.path.insert(0, os.path.dirname(os.path.dirname(os.path.abspath(__file__))))
import props as _p  # noqa: E402
from props import two_flavour, COMMON_ASSUME  # noqa: E402

_STAGE_EXT = _p.__dict__.setdefault('STAGE_EXTENSIONS', {})
_MINIMA_EXT = _p.__dict__.setdefault('MINIMA_EXTENSIONS', {})

HARNESSES = {
    # stand-alone use of SLUFactor<double> / SLUFactorRational: templates are instantiated in the harness TU itself
    'h_lu': dict(src='h_lu.cpp', insts=[]),
}

_c10_base = two_flavour('h_lu', 700, 2500, 3000, 15000)
_c11_base = two_flavour('h_lu', 2500, 9000, 40000, 160000)


def _with_ext(prop, base):
    def stages(tier):
        out = list(base(tier))
        for f in _STAGE_EXT.get(prop, []):
            out += list(f(tier))
        return out
    return stages


def _minima_ext(prop, base):
    def minima(tier):
        out = dict(base(tier))
        for f in _MINIMA_EXT.get(prop, []):
            out.update(f(tier))
        return out
    return minima


_C10_VARIANTS = ['solveRight.dense', 'solveRight.ssvec', 'solveRight.svec', 'solveRight4update', 'solve2right4update.dense.x',
                 'solve2right4update.sparse.x', 'solve3right4update.dense.x', 'solve3right4update.sparse.x', 'solveLeft.dense',
                 'solveLeft.ssvec', 'solveLeft.svec', 'solveLeft2.dense.x', 'solveLeft2.sparse.x', 'solveLeft3.dense.x', 'solveLeft3.sparse.x']


def _c10_minima(tier):
    th = tier == 'thorough'
    m = {'c10.updates_applied.FT': 200000 if th else 15000, 'c10.updates_applied.ETA': 200000 if th else 15000,
         'c10.load.singular_checked.alarm_domain': 1500 if th else 250, 'c10.load.wellcond_ok': 8000 if th else 1500,
         'c10.sparse_result.setup_checked': 500000 if th else 100000, 'c10.forward_checked': 500000 if th else 100000,
         'c10.index_guard.checked': 1000000 if th else 300000,
         'c10.refactorizations': 2000 if th else 300, 'distinct:nontrivial': 1500 if th else 600}
    for v in _C10_VARIANTS:
        for ut in ('FT', 'ETA'):
            m['c10.eval.%s.%s' % (v, ut)] = 30000 if th else 4000
    for v in ('solve2right4update.dense', 'solve2right4update.sparse', 'solve3right4update.dense', 'solve3right4update.sparse'):
        for ut in ('FT', 'ETA'):
            m['c10.update.via.%s.%s' % (v, ut)] = 15000 if th else 1500
    m['c10.chain_bucket.3' if th else 'c10.chain_bucket.2'] = 1000
    if th:
        m['c10.chain_bucket.4'] = 300   # histories of more than 100 (up to 200) updates without refactorisation
    m['c10.update.via.change-with-eta-argument.ETA'] = 3000 if th else 300
    return m


def _c11_minima(tier):
    th = tier == 'thorough'
    m = {'c11.truth.regular': 100000 if th else 6000, 'c11.truth.singular': 12000 if th else 700,
         'c11.regular_but_double_rounding_singular': 6000 if th else 400, 'c11.singular_but_double_rounding_regular': 2500 if th else 150,
         'c11.bits.gt128': 20000 if th else 1000, 'c11.sparse_result.setup_checked': 200000 if th else 10000,
         'c11.multi_rhs_4update_cases': 10000 if th else 500, 'distinct:nontrivial': 3000 if th else 1000}
    for v in ('solveRight.dense', 'solveRight.sparse', 'solveLeft.dense', 'solveLeft.sparse', 'solveLeft2.x', 'solveLeft3.x', 'solveRight4update'):
        for ut in ('FT', 'ETA'):
            m['c11.eval.%s.%s' % (v, ut)] = 50000 if th else 3000
    return m


PROPS = {
    'C10': dict(
        level='exploration',
        level_text='Seeded matrices (random sparse, triangular, permuted identity, row/column singletons, dense bump, badly scaled, dense; '
                   'dimension 1..60) x both update types x Markowitz grid x histories of exactly tested column replacements are run through '
                   'every public solve overload of SLUFactor<double>; each returned vector is judged by its exact rational residual against '
                   'the current matrix (kept with its exact inverse and condition number), multi-rhs results against the single solves, '
                   'load status against exact (non)singularity. Sampling of an infinite space of matrices and histories: '
                   'held-on-what-was-observed, not a proof.',
        level_note='trusts GMP arithmetic and the exact inverse (self-tested at start-up). Rounding level = 1e-9 (fresh factorisation) resp. 1e-9 x growth (after updates) relative to '
                   '||B||*||x||+||b||, growth = max(1/stability() as reported by the factorisation and tolerated by SPxBasisBase down to ~1e-6, '
                   '1 + sum of the exact pivot ratios |alpha|_max/|pivot| of the updates applied since the last factorisation) '
                   'plus the documented absolute zero tolerance epsilon=1e-16 with which the solves drop '
                   'entries; multi-rhs results must agree with the single solves within the bound implied by two rounding-level residuals. '
                   '"Never reported singular" is decided for cond_inf<=1e8 and ||B^-1||_inf<=1e5 (away from the documented absolute pivot tolerance '
                   'epsilon_pivot=1e-10); "singular is reported" is decided where floating-point elimination provably leaves no residue above that '
                   'tolerance: structurally singular matrices, totally unimodular network matrices with dependent rows/columns (any dimension), '
                   'duplicate/parallel/integer-dependent rows or columns of small-integer matrices up to dimension 8; larger ones are observed only. '
                   'Update histories refactorise where SPxBasisBase::change() would (status != OK, stability < minStab). Caller-owned index arrays '
                   'are framed by canaries, so an overrun is a reported violation in every flavour instead of heap corruption.',
        technique='runtime monitoring: exact-rational residual / forward-error / agreement / index-set oracles over executions of the '
                  'ASan+UBSan-instrumented factorisation; histories driven as SPxBasisBase::change() drives them',
        stages=_with_ext('C10', _c10_base),
        minima=_minima_ext('C10', _c10_minima),
        eval_counter='c10.eval_total', distinct_set='nontrivial',
        rule='case k -> (family = k mod 7, update type = (k div 7) mod 2, every 6th block exactly singular, seeded dimension, Markowitz '
             'threshold, history of up to 25 (quick) / 200 (thorough) column replacements); evaluation = one returned solution vector '
             'judged exactly; distinct = hash(family, dimension, update type, bucket of the longest update chain without refactorisation) '
             '(singular cases: family, dimension, update type, kind); non-trivial = matrix loaded and at least the 15 solve variants judged',
        assumptions=COMMON_ASSUME + [
            'valid uses only: right-hand sides of the multi-rhs calls are set-up SSVectors, result vectors carry Tolerances, every change() is '
            'preceded by a solve*4update with the entering column (or, directly after load()/change(), is given eta = solveRight(subst) as the '
            'documented optional argument), the exact pivot element of every update is >= 1e-3 |alpha|_max and >= 1e-9, replacement columns '
            'keep the exact condition number of the (unscaled) matrix <= 1e6, all matrix / right-hand-side entries are >= 6e-11 in modulus '
            '(well above the absolute zero tolerance 1e-16), result index arrays have dim+1 slots as the solver\'s own vectors (every 4th '
            'block of cases: exactly dim slots as SSVectorBase(dim) gives)',
        ],
    ),
    'C11': dict(
        level='exploration',
        level_text='Stand-alone half: seeded rational matrices (dimension 1..40, entries from one digit to > 400 bits, non-dyadic fractions, '
                   '1+2^-k perturbations, matrices whose double rounding is singular / whose exact singularity is destroyed by rounding) are '
                   'loaded into SLUFactorRational with both update types; status is compared with the exact determinant test and every '
                   'solveRight/solveLeft overload (dense, sparse, 2/3 right-hand sides, 4update) with the exact solution by equality. '
                   'Sampling, not proof. The SoPlex-API half (getBasisInverse*Rational, cache invalidation) is a separate stage.',
        level_note='trusts GMP arithmetic and an independent exact Gaussian elimination (vlib/cert.hpp, self-tested at start-up)',
        technique='runtime monitoring: exact-equality oracle over executions of the ASan+UBSan-instrumented rational factorisation',
        stages=_with_ext('C11', _c11_base),
        minima=_minima_ext('C11', _c11_minima),
        eval_counter='c11.eval_total', distinct_set='nontrivial',
        rule='case k -> (family = k mod 9, update type = (k div 9) mod 2, seeded dimension and entry bit lengths); evaluation = one returned '
             'solution vector compared exactly; distinct = hash(family, dimension, update type, regular/singular kind, entry-bit bucket); '
             'non-trivial = load status judged against the exact determinant test',
        assumptions=COMMON_ASSUME + ['result SSVectorRational objects are default constructed (no Tolerances => exact zero test), as API users create them'],
    ),
}
