"""C01, C02 (and later C04, C05, C16, C17): floating-point solve monitors on harness/h_solve.cpp"""
import os, sys
sys.path.insert(0, os.path.dirname(os.path.dirname(os.path.abspath(__file__))))
from props import two_flavour, COMMON_ASSUME  # noqa: E402

HARNESSES = {
    'h_solve': dict(src='h_solve.cpp', insts=['inst_soplex']),
}

PROPS = {
    'C01': dict(
        level='exploration',
        level_text='Every OPTIMAL answer of thousands of seeded (LP, configuration) pairs is judged element by element in exact rational '
                   'arithmetic against the LP as entered; completeness is judged against planted or independently certified optima. '
                   'Sampling of an infinite input x configuration space: held-on-what-was-observed, not a proof.',
        level_note='trusts GMP arithmetic, the exact re-check of reference certificates, and the tolerance policy (alarm beyond 10x tolerance)',
        technique='runtime monitoring: exact-arithmetic certificate oracle over executions of the sanitizer-instrumented solver; pairwise-covering + random configurations',
        stages=two_flavour('h_solve', 1500, 6000, 30000, 150000),
        minima=lambda t: {'c01.optimal_checked': 500, 'c01.complete_checked': 300, 'distinct:cfg': 50},
        eval_counter='cases', distinct_set='nontrivial',
        rule='case k -> (LP family, seeded LP, configuration from the pairwise covering array or random); distinct = hash(LP structural '
             'signature x configuration key); non-trivial = the solve performed >= 1 simplex iteration or presolve removed the LP',
        assumptions=COMMON_ASSUME,
    ),
    'C02': dict(
        level='exploration',
        level_text='Verdicts of seeded solves are compared with planted / independently certified truth; every offered Farkas vector and '
                   'primal ray is checked exactly (orientation-free interval disjointness, recession-cone membership). Sampling, not proof.',
        level_note='trusts GMP arithmetic and the exact re-check of reference certificates; float noise floor 1e-9 relative on rays/Farkas',
        technique='runtime monitoring: exact Farkas/ray/verdict oracles over executions under ASan+UBSan; ensure-ray x simplifier cross',
        stages=two_flavour('h_solve', 1500, 6000, 30000, 120000),
        minima=lambda t: {'c02.farkas_checked': 100, 'c02.ray_checked': 50, 'c02.verdict_checked': 800},
        eval_counter='cases', distinct_set='nontrivial',
        rule='case k -> (planted infeasible/unbounded/both/optimal or arbitrary LP, configuration, ensure-ray, simplifier); distinct = '
             'hash(LP signature x configuration key); non-trivial = solver returned a definite status',
        assumptions=COMMON_ASSUME,
    ),
}
