"""C01, C02 (and later C04, C05, C16, C17): floating-point solve monitors on harness/h_solve.cpp"""
import os, sys
sys.path.insert(0, os.path.dirname(os.path.dirname(os.path.abspath(__file__))))
from props import two_flavour, memcheck_stage, COMMON_ASSUME  # noqa: E402

HARNESSES = {
    'h_solve': dict(src='h_solve.cpp', insts=['inst_soplex']),
}

PROPS = {
    'C01': dict(
        level='exploration',
        level_text='Every OPTIMAL answer of thousands of seeded (LP, configuration) pairs is judged element by element in exact rational '
                   'arithmetic against the LP as entered; completeness is judged against planted or independently certified optima. '
                   'Sampling of an infinite input x configuration space: held-on-what-was-observed, not a proof.',
        level_note='trusts GMP arithmetic, the exact re-check of reference certificates, and the tolerance policy (alarm beyond 10x tolerance)',
        technique='runtime monitoring: exact-arithmetic certificate oracle over executions of the sanitizer-instrumented solver; pairwise-covering + random configurations',
        stages=lambda t: two_flavour('h_solve', 1500, 6000, 30000, 150000)(t) + [
            dict(name='netlib-asan', harness='h_solve', flavour='asan', sub='netlib', cases=87 if t == 'quick' else 400, idle_timeout=300),
            dict(name='netlib-opt', harness='h_solve', flavour='opt', sub='netlib', cases=232 if t == 'quick' else 900, idle_timeout=300)],
        minima=lambda t: {'netlib.certificates_checked': 150, 'c01.optimal_checked': 500, 'c01.complete_checked': 300, 'distinct:cfg': 50},
        eval_counter='cases', distinct_set='nontrivial',
        rule='case k -> (LP family, seeded LP, configuration from the pairwise covering array or random); distinct = hash(LP structural '
             'signature x configuration key); non-trivial = the solve performed >= 1 simplex iteration or presolve removed the LP',
        assumptions=COMMON_ASSUME,
    ),
    'C02': dict(
        level='exploration',
        level_text='Verdicts of seeded solves are compared with planted / independently certified truth; every offered Farkas vector and '
                   'primal ray is checked exactly (orientation-free interval disjointness, recession-cone membership). Sampling, not proof.',
        level_note='trusts GMP arithmetic and the exact re-check of reference certificates; float noise floor 1e-9 relative on rays/Farkas',
        technique='runtime monitoring: exact Farkas/ray/verdict oracles over executions under ASan+UBSan; ensure-ray x simplifier cross',
        stages=lambda t: two_flavour('h_solve', 1500, 6000, 30000, 150000)(t) + [
            dict(name='netlib-asan', harness='h_solve', flavour='asan', sub='netlib', cases=60 if t == 'quick' else 300, idle_timeout=300),
            dict(name='netlib-opt', harness='h_solve', flavour='opt', sub='netlib', cases=180 if t == 'quick' else 700, idle_timeout=300)],
        minima=lambda t: {'netlib.verdicts_checked': 100, 'netlib.farkas_checked': 30, 'c02.farkas_checked': 100, 'c02.ray_checked': 50, 'c02.verdict_checked': 800},
        eval_counter='cases', distinct_set='nontrivial',
        rule='case k -> (planted infeasible/unbounded/both/optimal or arbitrary LP, configuration, ensure-ray, simplifier); distinct = '
             'hash(LP signature x configuration key); non-trivial = solver returned a definite status',
        assumptions=COMMON_ASSUME,
    ),
    'C04': dict(
        level='exploration',
        level_text='At every point of seeded solve/abort/setBasis histories where hasBasis() holds, the reported basis is checked against the '
                   'exact model: one basic variable per row, bound-consistent nonbasic statuses, agreement of the three query styles, exact '
                   'nonsingularity of solve-produced bases (rational elimination), setBasis/getBasis round trip, and reuse of the basis in the '
                   'same and in a new solver object; (h) after bound-class changes (fix / unfix / free a column, drop or add a row side) and row/column '
                   'removal through the permutation interface while a basis is held, the statuses are re-checked against the new bounds. '
                   'Sampling of inputs x configurations x history points.',
        level_note='trusts GMP arithmetic; reuse is compared with a from-scratch solve of the same configuration and skipped when that solve '
                   'itself contradicts certified truth (that is C01/C02 territory)',
        technique='runtime monitoring: basis-invariant oracle with exact rank test at hooked history points, under ASan+UBSan',
        stages=lambda t: two_flavour('h_solve', 1200, 5000, 20000, 100000)(t) + [
            dict(name='exact-forcebasic-asan', harness='h_exact', flavour='asan', cases=300 if t == 'quick' else 1500, crash_markers=['lifting=1', 'iterative_refinement=0']),
            dict(name='exact-forcebasic-opt', harness='h_exact', flavour='opt', cases=1200 if t == 'quick' else 6000, crash_markers=['lifting=1', 'iterative_refinement=0'])],
        minima=lambda t: {'c04g.forcebasic_checked': 20, 'c04.basis_checked': 500, 'c04.setbasis_roundtrip': 300, 'c04.reuse.new-object': 200, 'c04.reuse.same-object': 200,
                          'c04.setbasis_fuzz_regular': 50, 'basis.exact_regularity_checks': 500, 'c04.basis_after_boundclass_change_checked': 1500},
        eval_counter='cases', distinct_set='nontrivial',
        rule='case k -> (LP family, seeded LP, configuration, scenario in {solve, aborted solve, user basis}); distinct = hash(LP signature x '
             'configuration x scenario); non-trivial = a basis was available and checked',
        assumptions=COMMON_ASSUME,
    ),
    'C05': dict(
        level='exploration',
        level_text='For seeded bases (after solves of every status, aborted solves and setBasis with random exactly-regular bases) the inverse '
                   'rows/columns, solve and multiply calls are compared in exact arithmetic with the basis matrix assembled from the user LP '
                   '(or the internal scaled columns for unscale=false), crossing representation x scaler x persistent scaling x unscale; '
                   'output buffers are canary-padded and sparse index lists compared with the nonzero pattern. Sampling.',
        level_note='residual thresholds 1e-8(1+||B||*||result||); trusts GMP; exactly singular user bases are skipped',
        technique='runtime monitoring: exact residual oracle B*B^-1=I on API outputs, canary buffers, under ASan+UBSan',
        stages=two_flavour('h_solve', 1200, 5000, 24000, 120000),
        minima=lambda t: {'c05.bases_with_nonzero_scale_exponent': 50, 'c05.sparse_index_checked': 200, 'cases': 1000},
        eval_counter='cases', distinct_set='nontrivial',
        rule='case k -> (LP family incl. badly-scaled, representation = (k/8)%3, scaler = (k/24)%7, persistent scaling = (k/168)%2, other '
             'parameters random, scenario); distinct = hash(LP signature x configuration x scenario)',
        assumptions=COMMON_ASSUME,
    ),
    'C16': dict(
        level='fault_enumeration',
        level_text='For each seeded (LP, configuration) the uninterrupted solve is recorded (N iterations) and then EVERY stop point k=0..N '
                   '(all when N+1 <= 24 quick / 150 thorough, else a stratified sample incl. 0,1,N-1,N) is enumerated twice: iteration limit k, '
                   'and the interrupt flag raised when the solver\'s own per-iteration log reports iteration k; plus time limit zero/tiny with '
                   'both clocks and twelve objective limits (OBJLIMIT_UPPER and OBJLIMIT_LOWER, each on both sides of the optimum at three distances, for the sense of the instance). Exact (rational) solves of the certified instances are stopped by iteration limits 0..3, refinement limits 0/1 (with stalling limit) and time limit 0: a definite status must be the certified one with the exact optimal value, and the same object must reach it after the limits are lifted. Each stop is judged for honest status, iteration '
                   'count <= limit, valid basis (exact regularity) and resumption to the uninterrupted status and value.',
        level_note='stop/resume equivalence only on instances whose class is certified and tolerance-robust; time-limit stops use real clocks '
                   '(limit 0 / 1e-9), the deterministic virtual-clock hook of the design was not built; exact solves use the default exact configuration only',
        technique='fault enumeration over stop points of real executions: iteration limit and log-driven interrupt injection, basis/status/resume oracles under ASan+UBSan',
        stages=lambda t: two_flavour('h_solve', 60, 240, 1500, 6000)(t) + [memcheck_stage('h_solve', 16, 96)(t)],
        minima=lambda t: {'memcheck.cases_completed': 14, 'c16.stop_points': 2000, 'c16.iterlimit.stopped_inside_solve': 300, 'c16.interrupt.stopped_inside_solve': 200,
                          'c16.iterlimit.resumed': 500, 'c16.interrupt.resumed': 500, 'c16.basis_after_stop_checked': 500,
                          'c16.exact.stops': 400, 'c16.exact.resumed': 400, 'c16.objlimit.sense.max.upper': 100, 'c16.objlimit.sense.max.lower': 100, 'c16.objlimit.sense.min.upper': 100, 'c16.objlimit.sense.min.lower': 100},
        eval_counter='c16.stop_points', distinct_set='stoppoints',
        rule='case -> (LP family, seeded LP, algorithm=(k/6)%2, representation=1+(k/12)%2, simplifier=(k/24)%2, other parameters random); '
             'evaluations = stop points executed; distinct = hash(mode, k, LP signature) of stops on instances with certified class',
        assumptions=COMMON_ASSUME,
    ),
    'C17': dict(
        level='exploration',
        level_text='Seeded histories compare (a) twin objects, (b) the same object re-solved after clearBasis(), bit for bit (status, iteration '
                   'count, basis, all solution vectors), and (c) copy-constructed / assigned objects taken at five kinds of history points: '
                   'equality of LP, all parameters, observable tolerances, the state of the random generator that draws the perturbation shifts (hooked private state), '
                   'basis, status and solution, identical re-solves, and independence in '
                   'both directions under modifications, parameter changes, solves and destruction of the other object (ASan watches dangling '
                   'pointers); (d) state leaking between solves: an object that solved, was modified and had its basis cleared must reach the '
                   'verdict and optimal value of a new object given the same LP (judged on certified, tolerance-robust LPs). Sampling of inputs x configurations x history points.',
        level_note='copies with a rational LP present are exercised by the exact-copies stages (h_exact: copy / assignment inside the C07 real+rational '
                   'modification histories, equality with the exact mirror, independence under rational changes, solves and destruction); '
                   'cross-process comparison not built',
        technique='runtime monitoring: bitwise snapshot comparison of twin/copy objects over seeded API histories under ASan+UBSan, plus valgrind memcheck (uninitialised state carried by copies)',
        stages=lambda t: two_flavour('h_solve', 1200, 5000, 24000, 80000)(t) + [memcheck_stage('h_solve', 96, 640)(t),
                          dict(name='exact-copies-asan', harness='h_exact', flavour='asan', cases=300 if t == 'quick' else 1500),
                          dict(name='exact-copies-opt', harness='h_exact', flavour='opt', cases=1200 if t == 'quick' else 6000)],
        minima=lambda t: {'memcheck.cases_completed': 90, 'c17.twin_solves': 200, 'c17.resolve_after_clearBasis': 150, 'c17.copy_resolve_compared': 150, 'c17.copy_random_state_compared': 300, 'c17.copy_random_state_compared.generator-advanced': 100,
                          'c17.independence_next_solve_compared': 200, 'c17.history.judged': 100,
                          'c07.op.copy(ctor)': 150, 'c07.op.copy(assign)': 150},
        eval_counter='cases', distinct_set='nontrivial',
        rule='case k -> (LP family, seeded LP, configuration, scenario: twins / re-solve / copy at point p by ctor or assignment, victim and '
             'hammer sequence); distinct = hash(LP signature x configuration x scenario seed)',
        assumptions=COMMON_ASSUME,
    ),
}

HARNESSES['h_modify'] = dict(src='h_modify.cpp', insts=['inst_soplex'])

PROPS['C06'] = dict(
    level='exploration',
    level_text='Seeded histories over all 31 real-interface modification entry points interleaved with optimize/getBasis/setBasis/clearBasis: '
               'after EVERY call every accessor is compared bit for bit with a dense exact mirror (documented perm[] renumbering validated, '
               'undocumented single-removal order adopted after a multiset check), stale solution/status is checked, surviving bases go '
               'through the basis monitor, and at each solve the status/value is compared with a new solver built from the mirror and with '
               'certified truth. Configurations cross scaler x persistent scaling x simplifier x representation. Sampling of histories.',
    level_note='solve equivalence judged only on instances with certified, tolerance-robust class; small integer data',
    technique='runtime monitoring: sequential reference-model (mirror) check after each API call of seeded histories, under ASan+UBSan',
    stages=lambda t: two_flavour('h_modify', 300, 1200, 6000, 20000)(t) + [memcheck_stage('h_modify', 48, 320)(t)],
    minima=lambda t: {'memcheck.cases_completed': 45, 'c06.solves_compared': 300, 'c06.stale_checks': 3000, 'c06.op.removeRowsReal(perm)': 50, 'c06.op.changeElementReal': 50,
                      'c06.op.removeColRangeReal': 30, 'c06.basis_after_modification_checked': 300},
    eval_counter='cases', distinct_set='nontrivial',
    rule='case k -> (history seed, scaler=k%7, persistent=(k/7)%2, simplifier=(k/14)%2, representation=(k/28)%3, other parameters random); '
         '60 (quick) / 90 (thorough) steps per history; distinct = hash(history seed x configuration)',
    assumptions=COMMON_ASSUME,
)
PROPS['C09'] = dict(
    level='exploration',
    level_text='(a) each of the six scaler objects applied stand-alone to badly scaled LPs (entries spanning up to 2^+-150): every stored '
               'coefficient, side, bound and objective entry must equal ldexp(original, exponent combination) bit for bit, every *Unscaled '
               'getter must return the original, unscaleLP() must restore the LP bit for bit; (b) user level: accessor snapshot and written '
               'LP/MPS files identical before and after scaled solves, certificates/Farkas/rays valid for the unscaled LP, and data added or '
               'changed while persistent scaling is active reads back exactly, over 2-14 solve/modify cycles. Sampling.',
    level_note='magnitudes kept within 2^+-200 so power-of-two scaling cannot overflow; observed exponents are reported (all-zero => inconclusive)',
    technique='runtime monitoring: bitwise power-of-two oracle on bare scalers and mirror/byte comparison at user level, under ASan+UBSan',
    stages=lambda t: two_flavour('h_modify', 1200, 5000, 24000, 100000)(t) + [memcheck_stage('h_modify', 64, 400)(t)],
    minima=lambda t: {'memcheck.cases_completed': 60, 'c09.bare.nonzero_exponents_seen': 300, 'c09.bare.unscaleLP_checked': 150, 'c09.user.nonzero_exponents_seen': 200,
                      'c09.user.files_compared': 200, 'c09.user.certificates_checked': 200},
    eval_counter='cases', distinct_set='nontrivial',
    rule='even k: bare scaler (scaler=1+(k/8)%6, persistent=(k/48)%2) on a seeded badly-scaled LP; odd k: user-level history (scaler=(k/2)%7, '
         'persistent=(k/14)%2); distinct = hash(LP signature or history seed x scaler x mode)',
    assumptions=COMMON_ASSUME,
)
