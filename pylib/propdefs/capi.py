"""C20: the C interface does exactly what the corresponding C++ calls do (harness/h_capi.cpp)"""
import os, sys
sys.path.insert(0, os.path.dirname(os.path.dirname(os.path.abspath(__file__))))
from props import two_flavour, COMMON_ASSUME  # noqa: E402

HARNESSES = {
    'h_capi': dict(src='h_capi.cpp', insts=['inst_soplex'], repo_cpp=['src/soplex_interface.cpp']),
}

_C_FUNCS = ['create', 'free', 'readInstanceFile', 'readBasisFile', 'readSettingsFile', 'clearLPReal', 'numRows', 'numCols', 'setRational',
            'setBoolParam', 'setIntParam', 'setRealParam', 'getIntParam', 'addColReal', 'removeColReal', 'addColRational', 'addRowReal',
            'removeRowReal', 'addRowRational', 'getPrimalReal', 'getPrimalRationalString', 'getDualReal', 'getRedCostReal', 'optimize',
            'getStatus', 'getSolvingTime', 'getNumIterations', 'changeObjReal', 'changeObjRational', 'changeLhsReal', 'changeRowLhsReal',
            'changeLhsRational', 'changeRhsReal', 'changeRowRhsReal', 'changeRhsRational', 'changeRangeReal', 'changeRowRangeReal',
            'writeFileReal', 'objValueReal', 'objValueRationalString', 'changeBoundsReal', 'changeVarBoundsReal', 'changeVarBoundsRational',
            'changeLowerReal', 'changeVarLowerReal', 'getLowerReal', 'getObjReal', 'changeUpperReal', 'changeVarUpperReal', 'getUpperReal',
            'basisRowStatus', 'basisColStatus', 'getRowVectorReal', 'getRowVectorRational', 'getRowBoundsReal', 'getRowBoundsRational']


def _stages(tier):
    # many small chunks: the known crashing wrappers (known_findings.d/C20.json) kill a worker per occurrence
    if tier == 'thorough':
        return [dict(name='asan', harness='h_capi', flavour='asan', cases=30000, chunks_per_job=12),
                dict(name='opt', harness='h_capi', flavour='opt', cases=96000, chunks_per_job=12)]
    return [dict(name='asan', harness='h_capi', flavour='asan', cases=2000, chunks_per_job=4),
            dict(name='opt', harness='h_capi', flavour='opt', cases=6000, chunks_per_job=4)]


def _minima(tier):
    per_fn = 60 if tier == 'quick' else 1500
    m = {'calls.SoPlex_' + f: per_fn for f in _C_FUNCS}
    m['calls.SoPlex_getRowVectorRational'] = 40 if tier == 'quick' else 1000      # focus cases only (1 case in 64)
    m.update({'cases': 7000 if tier == 'quick' else 115000, 'oracle.twin_compared': 100000 if tier == 'quick' else 2000000,
              'solves.real': 300, 'solves.rational': 100, 'solves.with_iterations': 200, 'string.checked': 100,
              'args.negative_numerator': 200, 'args.denominator_one': 200, 'args.near_2^62': 100, 'args.zero_nonzeros': 100,
              'args.nnonzeros_larger_than_needed': 100, 'args.dim_larger_than_needed': 200, 'cases.ctest': 100,
              'distinct:intparam_codes': 28, 'distinct:boolparam_codes': 26, 'distinct:realparam_codes': 27})
    return m


PROPS = {
    'C20': dict(
        level='exploration',
        level_text='Seeded random valid call histories (<= 40 calls) over all 56 functions of soplex_interface.h are executed on a handle and, '
                   'call by call, as the wrapped C++ calls on a mirror object; after every call all C++ accessors of both objects are compared '
                   '(reals bitwise, rationals exactly) and every value handed back through the C interface is compared with the C++ getter. '
                   'Arrays are heap blocks of exactly the contract length (ASan red zones) or canary-padded. Sampling: held on what was observed.',
        level_note='trusts: GMP; twin determinism of SoPlex objects for floating-point solves (equal histories give bitwise equal state; every solve '
                   'is first run on the mirror in a forked child and a history ends without verdict where the C++ solve dies or is not reproduced); the '
                   'contracts read off the header comments, the wrapped C++ calls and the C test program (change* vectors: dim = numCols/numRows exactly; '
                   'getPrimal/Dual/RedCostReal: dim >= needed; getLower/Upper/ObjReal and getPrimalRationalString: dim = numCols; getRowVector*: arrays of '
                   '>= numCols elements; nnonzeros >= true count). Region: sync modes only-real/auto (no manual: the C interface has no sync call), '
                   'parameter values without known solver crashes, no implicit growth of a scaled LP, exact solves only in the ASan flavour and only '
                   'where the C++ exact solve ends OPTIMAL (the exact solver of this tree has memory errors of its own on infeasible/unbounded LPs). '
                   'The crash-prone SoPlex_getRowVectorRational is exercised in its own short histories (1 case in 64).',
        technique='runtime monitoring: differential twin execution (C handle vs C++ mirror) under ASan+UBSan+LSan with exact-length and canary-padded '
                  'arrays, allocation tracking per C call (leaks, allocator of returned strings), plus an -O2 volume run',
        stages=_stages,
        minima=_minima,
        eval_counter='cases', distinct_set='nontrivial',
        rule='case k -> (kind by k mod 64: general history | focus history for crash-prone functions | the C test program; sync/solve mode; '
             'random valid calls); distinct = hash of the sequence of C function names; every history performs >= 3 C calls',
        assumptions=COMMON_ASSUME + ['only valid calls: lower <= upper, lhs <= rhs, indices in range, rational functions only with a rational LP, '
                                     'no exact solve in manual sync mode'],
    ),
}
