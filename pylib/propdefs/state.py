"""C14: basis files and state files (harness/h_state.cpp)"""
import os, sys
sys.path.insert(0, os.path.dirname(os.path.dirname(os.path.abspath(__file__))))
from props import two_flavour, memcheck_stage, COMMON_ASSUME  # noqa: E402

HARNESSES = {
    'h_state': dict(src='h_state.cpp', insts=['inst_soplex']),
}

PROPS = {
    'C14': dict(
        level='exploration',
        level_text='For seeded LPs and bases taken from solves of every status, aborted solves and setBasis with random valid (exactly '
                   'regular) status vectors (nonbasic at upper, fixed, free nonbasic included): writeBasisFile -> readBasisFile into a new '
                   'solver holding the same LP must return exactly the statuses (user names or default names, standard or CPLEX flag); '
                   'writeStateReal(.., writeZeroObjective=true) -> loadSettingsFile + readFile + readBasisFile into a new solver must '
                   'reproduce every parameter, the LP dimensions, the statuses (mapped by name) and, for instances with certified class, '
                   'the status and optimal value of the re-solve; writeStateRational(.., writeZeroObjective=true) of a solver holding the rational LP '
                   '(sync mode auto) -> readFile must be accepted and keep every column (empty zero-objective columns counted).',
        level_note='equal-bound variables may come back FIXED; the writer path "LP held outside the solver" is exercised only as far as '
                   'public histories reach it (hasBasis after a solve with simplifier keeps the LP loaded) and is reported, not claimed',
        technique='runtime monitoring: write/read round-trip oracle on real files over seeded bases and configurations, under ASan+UBSan',
        stages=lambda t: two_flavour('h_state', 600, 2400, 10000, 40000)(t) + [memcheck_stage('h_state', 48, 320)(t)],
        minima=lambda t: {'memcheck.cases_completed': 44, 'c14.basis_roundtrips.defaultnames.std': 100, 'c14.basis_roundtrips.usernames.cpx': 100, 'c14.source.setBasis': 100,
                          'c14.bases_with_nonbasic_at_upper': 100, 'c14.bases_with_free_nonbasic': 20, 'c14.state_roundtrips.usernames.std': 50,
                          'c14.state_resolves': 100,
                          'c14.rational_state_roundtrips.usernames.std': 50, 'c14.rational_state_roundtrips.with-empty-zero-objective-column': 30},
        eval_counter='cases', distinct_set='nontrivial',
        rule='case k -> (LP family, seeded LP, configuration (default in half of the cases), basis source, user/default names, cpx flag); '
             'distinct = hash(LP signature x configuration x scenario seed)',
        assumptions=COMMON_ASSUME,
    ),
}
