"""C08: presolve verdicts and postsolve, SPxMainSM driven stand-alone (harness/h_presolve.cpp)"""
import os, sys
sys.path.insert(0, os.path.dirname(os.path.dirname(os.path.abspath(__file__))))
from props import two_flavour, memcheck_stage, COMMON_ASSUME  # noqa: E402

HARNESSES = {
    'h_presolve': dict(src='h_presolve.cpp', insts=['inst_soplex']),
}

PROPS = {
    'C08': dict(
        level='exploration',
        level_text='SPxMainSM is run stand-alone on seeded LPs rich in presolvable structure (so that no simplex re-solve can mask a bad '
                   'postsolve): INFEASIBLE / UNBOUNDED / DUAL_INFEASIBLE / VANISHED verdicts are compared with certified truth; for a reduced LP '
                   'an independent exact simplex enumerates up to 4 (quick) / 8 (thorough) distinct optimal basic primal-dual solutions, each is '
                   'rounded to double and mapped back through unsimplify on a copy of the simplifier, and the result is judged in the original '
                   'space with the full OPTIMAL certificate (thresholds 1e-7), objective = reduced + offset, and the basis checks (count, bound '
                   'consistency, exact nonsingularity). The executed PostStep kinds are counted.',
        level_note='verdict checks only on instances whose class is certified and tolerance-robust; reduced-LP vertices come from Bland-rule '
                   'runs under random column priorities (not a complete vertex enumeration)',
        technique='runtime monitoring: differential postsolve oracle (exact reference solver on the reduced LP, exact certificate check in the original space) under ASan+UBSan',
        stages=lambda t: two_flavour('h_presolve', 1500, 6000, 30000, 100000)(t) + [memcheck_stage('h_presolve', 64, 400)(t)],
        minima=lambda t: {'memcheck.cases_completed': 60, 'c08.postsolves': 800, 'c08.vertices_postsolved': 300, 'c08.vanished_checked': 100, 'c08.verdicts_checked': 50,
                          'c08.bases_checked': 500, 'c08.keepbounds.on': 300, 'c08.keepbounds.off': 300},
        eval_counter='cases', distinct_set='nontrivial',
        rule='case k -> (family: 3/8 presolve-rich with 2-7 injected structures, else planted/degenerate/arbitrary; keepbounds=(k/8)%2; '
             'both senses; presolve seed random); distinct = hash(LP signature x keepbounds)',
        assumptions=COMMON_ASSUME,
    ),
}
