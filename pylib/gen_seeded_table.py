#!/usr/bin/env python3
"""Prints the markdown table of DESIGN.md section 10.5 from seeded/*/meta.json and seeded/RESULTS.json (development aid)."""
import json, glob, os
V = os.path.dirname(os.path.dirname(os.path.abspath(__file__)))
res = json.load(open(os.path.join(V, 'seeded', 'RESULTS.json')))
print('| seeded change | file / function | what it breaks, what it needs | caught by (first keys) | note |')
print('|---|---|---|---|---|')
for mp in sorted(glob.glob(os.path.join(V, 'seeded', '*', 'meta.json'))):
    sid = os.path.basename(os.path.dirname(mp))
    m = json.load(open(mp))
    r = res.get(sid, {})
    caught, missed = [], []
    for k, v in sorted(r.items()):
        if not isinstance(v, dict):
            continue
        if v.get('caught'):
            caught.append('%s: `%s`' % (v['property'], '`, `'.join(x.split(':', 1)[1] if ':' in x else x for x in v.get('keys', [])[:2])))
        else:
            missed.append('%s (exit %s)' % (v['property'], v.get('exit')))
    c = '; '.join(caught) if caught else '-'
    if missed:
        c += ' / not by ' + ', '.join(missed)
    note = m.get('history', '')
    def cut(t, n):
        t = ' '.join(t.split())
        return t if len(t) <= n else t[:n - 1] + '...'

    print('| %s | `%s` %s | %s Needs: %s | %s | %s |' % (sid, m.get('file', ''), m.get('function', '').replace('|', '/'), cut(m.get('what', ''), 220).replace('|', '/'),
                                                     cut(m.get('needs', ''), 220).replace('|', '/'), c.replace('|', '/'), cut(note, 260).replace('|', '/')))
